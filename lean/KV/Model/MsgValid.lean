import KV.Model.BitArray
/-!
# Well-formedness predicates of the consensus messages (property C18)

Transcribed from every `ValidateBasic` reached by `consensus/msgs.go MsgFromProto` (which validates
while converting: `PartSetHeaderFromProto`, `BlockIDFromProto`, `ProposalFromProto`, `VoteFromProto`,
`PartFromProto` each end with `ValidateBasic`) and by `ConsensusManager.Receive` (`msg.ValidateBasic()`).
Messages are abstract: hashes are reduced to "is the zero hash" (`common.Hash` is a fixed 32-byte array, so
`ValidateHash` cannot fail), byte strings to their length, unsigned wire integers (`uint32`/`uint64`) to `Nat`.
Bit arrays are what `BitArray.FromProto` produced from the wire value (`decodeBits`).
-/
namespace KV.MsgValid
open KV.BitArr

/-- `types.MaxVotesCount` -/
def MaxVotesCount : Nat := 10000
/-- `types.BlockPartSizeBytes` -/
def BlockPartSizeBytes : Nat := 65536
/-- `types.MaxBlockSizeBytes` -/
def MaxBlockSizeBytes : Nat := 104857600
/-- `types.MaxBlockPartsCount = MaxBlockSizeBytes / BlockPartSizeBytes + 1` -/
def MaxBlockPartsCount : Nat := MaxBlockSizeBytes / BlockPartSizeBytes + 1
/-- `consensus.maxMsgSize`: RecvMessageCapacity of every consensus channel -/
def maxMsgSize : Nat := 1048576

structure PartSetHeader where
  total : Nat          -- uint32
  hashZero : Bool
deriving Repr, DecidableEq

def PartSetHeader.isZero (p : PartSetHeader) : Bool := p.total == 0 && p.hashZero
/-- `PartSetHeader.ValidateBasic`: only `ValidateHash` of a fixed-size hash — always nil -/
def PartSetHeader.valid (_ : PartSetHeader) : Bool := true

structure BlockID where
  hashZero : Bool
  parts : PartSetHeader
deriving Repr, DecidableEq

def BlockID.isZero (b : BlockID) : Bool := b.hashZero && b.parts.isZero
def BlockID.isComplete (b : BlockID) : Bool := !b.hashZero && !b.parts.isZero
def BlockID.valid (b : BlockID) : Bool := b.parts.valid

/-- `types.IsVoteTypeValid`: Prevote = 1, Precommit = 2 -/
def voteTypeValid (t : Nat) : Bool := t == 1 || t == 2

inductive Msg where
  | newRoundStep (height round step secs lastCommitRound : Nat)
  | newValidBlock (height round : Nat) (header : PartSetHeader) (parts : BitArray) (isCommit : Bool)
  | proposal (height round polRound : Nat) (blockID : BlockID) (sigLen : Nat)
  | proposalPOL (height polRound : Nat) (pol : BitArray)
  | blockPart (height round index bytesLen : Nat)
  | vote (type height round : Nat) (blockID : BlockID) (valIndex sigLen : Nat)
  | hasVote (height round type index : Nat)
  | voteSetMaj23 (height round type : Nat) (blockID : BlockID)
  | voteSetBits (height round type : Nat) (blockID : BlockID) (votes : BitArray)
deriving Repr

/-- the `ValidateBasic` of each message kind (together with the validation done while converting) -/
def valid : Msg → Bool
  | .newRoundStep _ _ step _ _ => 1 ≤ step && step ≤ 8            -- RoundStepType.IsValid (after uint8 truncation)
  | .newValidBlock _ _ header parts _ =>
      header.valid && parts.bits != 0 && parts.bits == header.total && parts.bits ≤ MaxBlockPartsCount
  | .proposal _ _ _ blockID sigLen =>                               -- ProposalMessage.ValidateBasic is `return nil`;
      blockID.valid && blockID.isComplete && sigLen != 0           -- this is Proposal.ValidateBasic via ProposalFromProto
  | .proposalPOL _ _ pol => pol.bits != 0
  | .blockPart _ _ _ bytesLen => bytesLen ≤ BlockPartSizeBytes
  | .vote type _ _ blockID _ sigLen =>
      voteTypeValid type && blockID.valid && (blockID.isZero || blockID.isComplete) && sigLen != 0
  | .hasVote _ _ type _ => voteTypeValid type
  | .voteSetMaj23 _ _ type blockID => voteTypeValid type && blockID.valid
  | .voteSetBits _ _ type blockID votes => voteTypeValid type && blockID.valid && votes.bits ≤ MaxVotesCount

/-- how `MsgFromProto` obtains a bit array: `new(BitArray)` then `FromProto(wire)` -/
def decodeBits (w : Wire) : BitArray := fromProto w

/-- the message came off the wire: its bit arrays are results of `decodeBits` -/
def Decoded : Msg → Prop
  | .newValidBlock _ _ _ parts _ => ∃ w, parts = decodeBits w
  | .proposalPOL _ _ pol => ∃ w, pol = decodeBits w
  | .voteSetBits _ _ _ _ votes => ∃ w, votes = decodeBits w
  | _ => True

/-- the sizes / indices the handlers use after validation -/
def Bounded : Msg → Prop
  | .newRoundStep _ _ step _ _ => 1 ≤ step ∧ step ≤ 8
  | .newValidBlock _ _ header parts _ =>
      WF parts ∧ 0 < parts.bits ∧ parts.bits = header.total ∧ parts.bits ≤ MaxBlockPartsCount ∧
        parts.elems.length ≤ 26
  | .proposal .. => True                 -- nothing is bounded: see `proposal_total_unbounded` (F18)
  | .proposalPOL _ _ pol => WF pol ∧ 0 < pol.bits       -- no numeric cap in this code base (upstream: MaxVotesCount)
  | .blockPart _ _ _ bytesLen => bytesLen ≤ BlockPartSizeBytes
  | .vote type .. => type = 1 ∨ type = 2
  | .hasVote _ _ type _ => type = 1 ∨ type = 2
  | .voteSetMaj23 _ _ type _ => type = 1 ∨ type = 2
  | .voteSetBits _ _ type _ votes =>
      (type = 1 ∨ type = 2) ∧ WF votes ∧ votes.bits ≤ MaxVotesCount ∧ votes.elems.length ≤ 157

/-- words allocated by `PeerState.SetHasProposal` / `InitProposalBlockParts`:
`cmn.NewBitArray(int(PartsHeader.Total))` -/
def setHasProposalWords (m : Msg) : Nat :=
  match m with
  | .proposal _ _ _ blockID _ => nwords blockID.parts.total
  | _ => 0

/-- `ApplyVoteSetBitsMessage` with `ourVotes ≠ nil`: `votes.Update(votes.Sub(ourVotes).Or(msg.Votes))` -/
def applyVoteSetBits (votes ours msg : BitArray) : Option BitArray :=
  match sub votes ours with
  | none => none
  | some d =>
    match or (some d) (some msg) with
    | some (some h) => some (update votes h)
    | _ => none

end KV.MsgValid
