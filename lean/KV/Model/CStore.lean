import KV.Base.Hex
/-!
# Model of the consensus-state store (property C14)

Follows `kai/state/cstate/store.go` (`saveState`, `saveValidatorsInfo`, `saveConsensusParamsInfo`,
`loadStateAtHeight`, `Load`, `LoadValidators`, `LoadConsensusParams`, `PruneState`),
`kai/state/cstate/state.go` (`ToProto`, `StateFromProto`) and `kai/rawdb/accessors_cstate.go`
branch by branch.  The database is five finite maps (association lists, newest binding first):

* `states`  : height ↦ state record = chain id, initial height, **three validator-info keys** and a
              params key (nothing else of the state is in the record);
* `vals`    : validator-info key ↦ (validator set with priorities and proposer, last height changed);
* `params`  : params key ↦ (consensus params, last height changed);
* `metas`   : height ↦ block meta (header height, block id, time, number of txs) — written by the
              block store (`rawdb.WriteBlock`), *joined* by `loadStateAtHeight`;
* `apps`    : height ↦ application hash (`rawdb.WriteAppHash`), joined likewise.

The validator-info key is `ValidatorSet.Hash()`, the Merkle root over `SimpleValidator{Address,
VotingPower}`.  It is modelled by `vkey` = *the (address, power) list itself* (`none` = the zero
hash of a nil/empty set): an injective stand-in for the hash that — exactly like the real hash —
ignores proposer priorities and the proposer.  That is the root of finding F4.

The params key is `common.BytesToHash(marshal(ConsensusParamsInfo))`: **not a hash** but the last
32 bytes of the record (left padded with zeros) — modelled literally by `pkey`.

Core Lean only.
-/
namespace KV.CStore

/-! ## finite maps -/

def get {κ α : Type} [DecidableEq κ] (k : κ) : List (κ × α) → Option α
  | [] => none
  | (k', v) :: r => if k' = k then some v else get k r

def put {κ α : Type} (k : κ) (v : α) (m : List (κ × α)) : List (κ × α) := (k, v) :: m

def del {κ α : Type} [DecidableEq κ] (k : κ) : List (κ × α) → List (κ × α)
  | [] => []
  | (k', v) :: r => if k' = k then del k r else (k', v) :: del k r

def delAll {κ α : Type} [DecidableEq κ] (ks : List κ) (m : List (κ × α)) : List (κ × α) :=
  ks.foldl (fun m k => del k m) m

/-! ## validator sets -/

structure Val where
  addr : Nat
  power : Int
  prio : Int
  deriving DecidableEq, Repr

/-- `types.ValidatorSet`: validators in the set's own order, the proposer is a separate copy. -/
structure VSet where
  vals : List Val
  proposer : Option Val
  deriving DecidableEq, Repr

abbrev Memb := List (Nat × Int)

/-- what `ValidatorSet.Hash()` depends on: addresses and powers, in order -/
def VSet.memb (v : VSet) : Memb := v.vals.map (fun x => (x.addr, x.power))

/-- validator-info key; `none` is the zero hash -/
abbrev VKey := Option Memb

/-- `saveValidatorsInfo`: nil set ↦ zero hash, otherwise `valSet.Hash()` (zero hash when empty). -/
def vkey : Option VSet → VKey
  | none => none
  | some v => if v.vals.isEmpty then none else some v.memb

structure ValInfo where
  set : Option VSet
  lhc : Nat
  deriving DecidableEq, Repr

/-! ## params records -/

/-- protobuf varint, little-endian base 128; recursion on fuel (`n` itself is ample) so that the
kernel can evaluate it in the concrete counterexamples -/
def varintF : Nat → Nat → Bytes
  | 0, n => [UInt8.ofNat n]
  | f + 1, n => if n < 128 then [UInt8.ofNat n] else UInt8.ofNat (n % 128 + 128) :: varintF f (n / 128)

def varint (n : Nat) : Bytes := varintF n n

/-- gogoproto encoding of `ConsensusParamsInfo{ConsensusParams (non-nullable, field 1),
LastHeightChanged (field 2, omitted when 0)}`; `p` is the encoding of the `ConsensusParams`. -/
def encParamsInfo (p : Bytes) (lhc : Nat) : Bytes :=
  (0x0a : UInt8) :: varint p.length ++ p ++ (if lhc = 0 then [] else (0x10 : UInt8) :: varint lhc)

/-- `common.BytesToHash`: the last 32 bytes, left padded -/
def last32 (b : Bytes) : Bytes :=
  List.replicate (32 - b.length) (0 : UInt8) ++ b.drop (b.length - 32)

def pkey (p : Bytes) (lhc : Nat) : Bytes := last32 (encParamsInfo p lhc)

structure ParamsInfo where
  params : Bytes
  lhc : Nat
  deriving DecidableEq, Repr

/-! ## records and states -/

structure StateRec where
  chainId : Bytes
  initialHeight : Nat
  lastKey : VKey
  valsKey : VKey
  nextKey : VKey
  paramsKey : Bytes
  deriving DecidableEq, Repr

structure Meta where
  height : Nat
  blockId : String
  time : Int
  numTxs : Nat
  deriving DecidableEq, Repr

structure DB where
  states : List (Nat × StateRec) := []
  vals : List (VKey × ValInfo) := []
  params : List (Bytes × ParamsInfo) := []
  metas : List (Nat × Meta) := []
  apps : List (Nat × Bytes) := []

/-- `cstate.LatestBlockState` -/
structure CState where
  chainId : Bytes
  initialHeight : Nat
  height : Nat
  blockId : String
  time : Int
  numTxs : Nat
  appHash : Bytes
  params : Bytes
  lhp : Nat
  lhv : Nat
  last : Option VSet
  vals : Option VSet
  next : Option VSet
  deriving DecidableEq, Repr

def zero32 : Bytes := List.replicate 32 0

/-- canonical text of the empty `types.BlockID` (zero hash, no parts) -/
def zeroBlockId : String := "-"

/-! ## save -/

/-- `saveValidatorsInfo` does not panic: `ValidatorSet.ToProto` of a non-empty set needs a proposer -/
def writable : Option VSet → Bool
  | none => true
  | some v => v.vals.isEmpty || v.proposer.isSome

def saveVals (lhc : Nat) (s : Option VSet) (m : List (VKey × ValInfo)) : List (VKey × ValInfo) :=
  put (vkey s) ⟨s, lhc⟩ m

/-- `saveState`.  `none` = the real function panics (nil set dereferenced by `ToProto`, proposer
missing); nothing is written then because everything goes through one batch. -/
def saveState (db : DB) (s : CState) : Option DB :=
  if s.vals.isNone || s.next.isNone || (s.height != 0 && s.last.isNone) then none
  else if !(writable s.next) || (s.height == 0 && !(writable s.last && writable s.vals)) then none
  else
    let vals0 :=
      if s.height = 0 then saveVals s.lhv s.vals (saveVals s.lhv s.last db.vals) else db.vals
    let vals1 := saveVals s.lhv s.next vals0
    let pk := pkey s.params s.lhp
    let rec_ : StateRec :=
      { chainId := s.chainId, initialHeight := s.initialHeight,
        lastKey := vkey s.last, valsKey := vkey s.vals, nextKey := vkey s.next, paramsKey := pk }
    some { db with
      vals := vals1
      params := put pk ⟨s.params, s.lhp⟩ db.params
      states := put s.height rec_ db.states }

/-- what the block store writes for the block at `s.height` before the state is saved
(`rawdb.WriteBlock` → block meta, `rawdb.WriteAppHash`) -/
def writeBlock (db : DB) (s : CState) : DB :=
  { db with
    metas := put s.height ⟨s.height, s.blockId, s.time, s.numTxs⟩ db.metas
    apps := put s.height s.appHash db.apps }

/-- one committed height: block meta + app hash, then `Store.Save` -/
def commit (db : DB) (s : CState) : Option DB := saveState (writeBlock db s) s

/-- save a whole history in order -/
def commitAll : DB → List CState → Option DB
  | db, [] => some db
  | db, s :: rest => (commit db s).bind (fun db' => commitAll db' rest)

/-! ## load -/

inductive LoadRes where
  | empty            -- no state record: `loadStateAtHeight` returns nil, `Load` the empty state
  | panic            -- nil dereference / explicit panic
  | ok (s : CState)
  deriving DecidableEq, Repr

/-- `types.ValidatorSetFromProto(info.ValidatorSet)` on a record that may be missing;
`none` = nil dereference of a missing record, nil set, `ValidateBasic` failure (→ panic) -/
def readSet : Option ValInfo → Option VSet
  | none => none
  | some i =>
    match i.set with
    | none => none
    | some v =>
      if v.vals.isEmpty then none
      else match v.proposer with
        | none => none
        | some p => if v.vals.any (fun x => x.power < 0) || p.power < 0 then none else some v

def loadAt (db : DB) (h : Nat) : LoadRes :=
  match get h db.states with
  | none => .empty
  | some r =>
    match get h db.metas with
    | none => .panic
    | some m =>
      -- no block precedes the first one: at height 0 the block id and app hash stay empty
      -- (as in the state `MakeGenesisState` builds); otherwise they are joined from the block
      -- meta and the app-hash record
      let app := if h > 0 then (get h db.apps).getD zero32 else zero32
      let bid := if h > 0 then m.blockId else zeroBlockId
      let lastR : Option (Option VSet) :=
        if m.height > 0 then (readSet (get r.lastKey db.vals)).map some else some none
      match lastR, readSet (get r.valsKey db.vals), get r.nextKey db.vals with
      | some last, some vals, some ni =>
        match readSet (some ni), get r.paramsKey db.params with
        | some next, some pi =>
          .ok { chainId := r.chainId
                initialHeight := if r.initialHeight = 0 then 1 else r.initialHeight
                height := m.height, blockId := bid, time := m.time, numTxs := m.numTxs
                appHash := app, params := pi.params, lhp := pi.lhc, lhv := ni.lhc
                last := last, vals := some vals, next := some next }
        | _, _ => .panic
      | _, _, _ => .panic

inductive ValsRes where
  | noState | noValSet | err
  | ok (v : VSet)
  deriving DecidableEq, Repr

/-- `LoadValidators(h)`: the record under the **LastValidators** key of state `h` -/
def loadValidators (db : DB) (h : Nat) : ValsRes :=
  match get h db.states with
  | none => .noState
  | some r =>
    match get r.lastKey db.vals with
    | none => .noValSet
    | some i =>
      match readSet (some i) with
      | none => .err
      | some v => .ok v

inductive ParamsRes where
  | panic | err
  | ok (p : Bytes)
  deriving DecidableEq, Repr

def loadParams (db : DB) (h : Nat) : ParamsRes :=
  match get h db.states with
  | none => .panic          -- `cstate.ConsensusParamsInfoHash` on a nil record
  | some r =>
    match get r.paramsKey db.params with
    | none => .err
    | some pi => .ok pi.params

/-! ## prune -/

def refs (db : DB) (h : Nat) : List VKey :=
  match get h db.states with
  | none => []
  | some r => [r.lastKey, r.valsKey, r.nextKey]

/-- heights whose state record `PruneState(from, to)` deletes -/
def pruneHeights (db : DB) (frm to : Nat) : List Nat :=
  let f := if frm = 0 then 1 else frm
  (List.range' f (to - f)).filter (fun i => (get i db.states).isSome)

/-- the validator-info keys `PruneState(from, to)` deletes: LastValidators keys of the deleted
states, minus the keys referenced by the genesis state and by state `to`, that exist -/
def pruneVictims (db : DB) (frm to : Nat) : List VKey :=
  let hs := pruneHeights db frm to
  let cache := hs.filterMap (fun i => (get i db.states).map (·.lastKey))
  let db1 : DB := { db with states := delAll hs db.states }
  let prot := refs db1 0 ++ refs db1 to
  ((cache.filter (fun k => !(prot.contains k))).eraseDups).filter (fun k => (get k db.vals).isSome)

def prune (db : DB) (frm to : Nat) : DB × Nat × Nat :=
  let hs := pruneHeights db frm to
  let vs := pruneVictims db frm to
  ({ db with states := delAll hs db.states, vals := delAll vs db.vals }, hs.length, vs.length)

end KV.CStore
