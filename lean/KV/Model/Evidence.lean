/-!
# Evidence model (property C19)

Hand-written from `types/evidence.go` (`DuplicateVoteEvidence`, `NewDuplicateVoteEvidence`,
`ValidateBasic`), `types/evidence/verify.go` (`verify`, `VerifyDuplicateVote`) and
`types/evidence/pool.go` (`AddEvidence`, `AddEvidenceFromConsensus`, `CheckEvidence`, `Update`,
`markEvidenceAsCommitted`, `removeExpiredPendingEvidence`, `isExpired`, `PendingEvidence`,
`listEvidence`, `NewPool`), branch by branch, *as found*.

Abstractions (all supplied by the environment / the harness, never computed here):

* **signatures** are symbolic: a signature is `empty`, `garbage` (bytes that verify under no key)
  or `signed ⟨key, chain, content⟩` - the record of which key signed exactly which canonical vote
  (chain id, height, round, **type**, block id, timestamp). `sigOK chain v a` holds iff the vote
  carries a signature by key `a` over exactly the vote's present content. (`sigOKUntyped` is the
  pre-F2 rule in which the type was not part of the signed bytes; it is only used for the
  `relabel_counterexample`.)
* **block ids** are natural numbers ranked in the order of `BlockID.Key()` (0 is the nil id);
  `bidOK` says whether the id is zero-or-complete (`Vote.ValidateBasic`).
* **the evidence hash** is a field of the evidence (`hash`), the pool keys its two tables by
  `(height, hash)` exactly as `keySuffix` does; `size` is the number of bytes the evidence
  contributes to `EvidenceData.Size()` (used by `listEvidence`).
* times are `Int` nanoseconds; heights `Nat` (< 2^64).
-/
namespace KV.Evidence

/-- what a vote signature covers (`CreateCanonicalVote`): type, height, round, block id, time -/
structure Content where
  h : Nat
  r : Nat
  t : Nat
  b : Nat
  ts : Int
deriving DecidableEq, Repr, Inhabited

structure Sig where
  key : Nat
  chain : Nat
  c : Content
deriving DecidableEq, Repr, Inhabited

inductive SigV where
  | empty
  | garbage
  | signed (s : Sig)
deriving DecidableEq, Repr, Inhabited

structure Vote where
  c : Content
  addr : Nat
  idx : Nat
  bidOK : Bool
  sig : SigV
deriving DecidableEq, Repr, Inhabited

structure Val where
  addr : Nat
  power : Int
deriving DecidableEq, Repr, Inhabited

abbrev ValSet := List Val

def ValSet.find (vs : ValSet) (a : Nat) : Option Val := List.find? (fun v => v.addr == a) vs
def ValSet.total (vs : ValSet) : Int := (vs.map (·.power)).sum

structure Evidence where
  a : Vote
  b : Vote
  total : Int
  power : Int
  time : Int
  hash : Nat
  size : Nat
deriving DecidableEq, Repr, Inhabited

abbrev Key := Nat × Nat

def Evidence.height (e : Evidence) : Nat := e.a.c.h
def Evidence.key (e : Evidence) : Key := (e.height, e.hash)

/-- `VerifySignature(addr, Keccak(VoteSignBytes(chain, vote)), vote.Signature)` -/
def sigOK (chain : Nat) (v : Vote) (a : Nat) : Bool := v.sig == .signed ⟨a, chain, v.c⟩

/-- the rule before the F2 fix: the signed bytes carried a constant type -/
def sigOKUntyped (chain : Nat) (v : Vote) (a : Nat) : Bool :=
  match v.sig with
  | .signed s => s.key == a && s.chain == chain && s.c.h == v.c.h && s.c.r == v.c.r &&
                 s.c.b == v.c.b && s.c.ts == v.c.ts
  | _ => false

inductive Verdict where
  | ok | noHeader | badTime | expired | noVals | notValidator | hrs | addr | sameBlock
  | power | total | sigA | sigB | committed | duplicate
deriving DecidableEq, Repr, Inhabited

/-- `VerifyDuplicateVote`, with the signature rule as a parameter -/
def verifyDupWith (sg : Nat → Vote → Nat → Bool) (e : Evidence) (vs : ValSet) (chain : Nat) : Verdict :=
  match vs.find e.a.addr with
  | none => .notValidator
  | some val =>
    if e.a.c.h ≠ e.b.c.h ∨ e.a.c.r ≠ e.b.c.r ∨ e.a.c.t ≠ e.b.c.t then .hrs
    else if e.a.addr ≠ e.b.addr then .addr
    else if e.a.c.b = e.b.c.b then .sameBlock
    else if val.power ≠ e.power then .power
    else if vs.total ≠ e.total then .total
    else if !sg chain e.a val.addr then .sigA
    else if !sg chain e.b val.addr then .sigB
    else .ok

/-- `VerifyDuplicateVote` of the code as it stands (vote type signed) -/
def verifyDup (e : Evidence) (vs : ValSet) (chain : Nat) : Verdict := verifyDupWith sigOK e vs chain

/-! ## `ValidateBasic` -/

inductive Basic where
  | ok | nilVote | badA | badB | order
deriving DecidableEq, Repr, Inhabited

/-- `Vote.ValidateBasic`: valid type, block id zero-or-complete, signature present -/
def voteBasic (v : Vote) : Bool := (v.c.t == 1 || v.c.t == 2) && v.bidOK && v.sig != .empty

/-- `DuplicateVoteEvidence.ValidateBasic` -/
def validateBasic (a b : Option Vote) : Basic :=
  match a, b with
  | some a, some b =>
    if !voteBasic a then .badA
    else if !voteBasic b then .badB
    else if a.c.b ≥ b.c.b then .order
    else .ok
  | _, _ => .nilVote

/-! ## evidence built by consensus (`NewDuplicateVoteEvidence`, called from `tryAddVote`) -/

/-- everything but hash and size, which are functions of the content the harness supplies -/
def newDuplicateVoteEvidence (v1 v2 : Vote) (blockTime : Int) (vs : ValSet) (hash size : Nat) : Option Evidence :=
  match vs.find v1.addr with
  | none => none
  | some val =>
    let (a, b) := if v1.c.b < v2.c.b then (v1, v2) else (v2, v1)
    some { a := a, b := b, total := vs.total, power := val.power, time := blockTime, hash := hash, size := size }

/-! ## the pool -/

structure Params where
  maxAgeBlocks : Int
  maxAgeDur : Int
deriving DecidableEq, Repr, Inhabited

/-- what the pool reads from the node: chain id, block store (header time by height), state store
(validators entitled to sign a height, `LoadValidators`) -/
structure Env where
  chain : Nat
  times : List (Nat × Int)
  vals : List (Nat × ValSet)
deriving Repr, Inhabited

structure Pool where
  params : Params
  height : Nat
  time : Int
  pending : List Evidence
  committed : List Key
  pruneH : Nat
  pruneT : Int
deriving Repr, Inhabited

def keyLt (a b : Key) : Bool := a.1 < b.1 || (a.1 == b.1 && a.2 < b.2)

/-- the database iterates keys in order: pending evidence is kept sorted by `(height, hash)` -/
def insertEv (e : Evidence) : List Evidence → List Evidence
  | [] => [e]
  | x :: r => if keyLt e.key x.key then e :: x :: r else x :: insertEv e r

def insertKey (k : Key) : List Key → List Key
  | [] => [k]
  | x :: r => if k = x then x :: r else if keyLt k x then k :: x :: r else x :: insertKey k r

def isPending (p : Pool) (e : Evidence) : Bool := p.pending.any (fun x => x.key == e.key)
def isCommitted (p : Pool) (e : Evidence) : Bool := p.committed.contains e.key

def two64 : Nat := 18446744073709551616

/-- `uint64(x)` of a Go `int64` -/
def toU64 (x : Int) : Nat := (x % (two64 : Int)).toNat

/-- `Pool.isExpired`: `ageNumBlocks` is a `uint64` difference (wraps when the evidence is above the
state height), both conditions must hold -/
def isExpired (p : Pool) (h : Nat) (t : Int) : Bool :=
  decide ((p.height + two64 - h) % two64 > toU64 p.params.maxAgeBlocks) &&
  decide (p.time - t > p.params.maxAgeDur)

/-- the expiry test inside `verify` (signed arithmetic, against the block time) -/
def verifyExpired (p : Pool) (h : Nat) (bt : Int) : Bool :=
  decide (p.time - bt > p.params.maxAgeDur) && decide ((p.height : Int) - (h : Int) > p.params.maxAgeBlocks)

/-- `Pool.verify` -/
def verify (env : Env) (p : Pool) (e : Evidence) : Verdict :=
  match env.times.lookup e.height with
  | none => .noHeader
  | some bt =>
    if e.time ≠ bt then .badTime
    else if verifyExpired p e.height bt then .expired
    else match env.vals.lookup e.height with
      | none => .noVals
      | some vs => verifyDup e vs env.chain

def addPending (p : Pool) (e : Evidence) : Pool := { p with pending := insertEv e p.pending }

inductive AddRes where
  | alreadyPending | alreadyCommitted | added | rejected (v : Verdict)
deriving DecidableEq, Repr, Inhabited

/-- `Pool.AddEvidence` (both "already" answers are `nil` in Go and leave the pool unchanged) -/
def addEvidence (env : Env) (p : Pool) (e : Evidence) : Pool × AddRes :=
  if isPending p e then (p, .alreadyPending)
  else if isCommitted p e then (p, .alreadyCommitted)
  else match verify env p e with
    | .ok => (addPending p e, .added)
    | v => (p, .rejected v)

/-- `Pool.AddEvidenceFromConsensus`: no verification, **no committed check** -/
def addFromConsensus (p : Pool) (e : Evidence) : Pool × AddRes :=
  if isPending p e then (p, .alreadyPending) else (addPending p e, .added)

/-- the loop of `Pool.CheckEvidence`; `seen` = hashes of the entries already passed.  Evidence added
to `pending` before a later entry fails stays there. -/
def checkLoop (env : Env) : Pool → List Nat → List Evidence → Pool × Verdict
  | p, _, [] => (p, .ok)
  | p, seen, e :: rest =>
    if isPending p e then
      if seen.contains e.hash then (p, .duplicate) else checkLoop env p (e.hash :: seen) rest
    else if isCommitted p e then (p, .committed)
    else match verify env p e with
      | .ok =>
        let p' := addPending p e
        if seen.contains e.hash then (p', .duplicate) else checkLoop env p' (e.hash :: seen) rest
      | v => (p, v)

def checkEvidence (env : Env) (p : Pool) (l : List Evidence) : Pool × Verdict := checkLoop env p [] l

/-- one step of `markEvidenceAsCommitted` -/
def markCommitted (p : Pool) (e : Evidence) : Pool :=
  { p with pending := p.pending.filter (fun x => x.key != e.key), committed := insertKey e.key p.committed }

def oneSecond : Int := 1000000000

/-- `removeExpiredPendingEvidence`: walks the pending table in key order, deletes while expired,
stops at the first entry that is not, and computes when to look again -/
def removeExpired (p : Pool) : Pool :=
  match p.pending.dropWhile (fun e => isExpired p e.height e.time) with
  | [] => { p with pending := [], pruneH := p.height, pruneT := p.time }
  | e :: rest =>
    { p with pending := e :: rest,
             pruneH := (e.height + toU64 p.params.maxAgeBlocks + 1) % two64,
             pruneT := e.time + p.params.maxAgeDur + oneSecond }

/-- `Pool.Update`; `none` = the sanity-check panic -/
def update (p : Pool) (h : Nat) (t : Int) (l : List Evidence) : Option Pool :=
  if h ≤ p.height then none else
  let p1 := { p with height := h, time := t }
  let p2 := l.foldl markCommitted p1
  some (if p2.pending.length > 0 ∧ h > p2.pruneH ∧ t > p2.pruneT then removeExpired p2 else p2)

/-- `NewPool` on an existing evidence database: state from the state store, one expiry pass -/
def restart (p : Pool) (h : Nat) (t : Int) : Pool := removeExpired { p with height := h, time := t }

/-- `listEvidence`: entries in key order while the running `EvidenceData` size stays within
`maxBytes` (`-1` = no cap); also returns the size of what is returned -/
def takeBytes (max : Int) : Int → List Evidence → List Evidence × Int
  | acc, [] => ([], acc)
  | acc, e :: rest =>
    if max ≠ -1 ∧ acc + e.size > max then ([], acc)
    else let (l, s) := takeBytes max (acc + e.size) rest; (e :: l, s)

/-- `Pool.PendingEvidence` -/
def pendingEvidence (p : Pool) (max : Int) : List Evidence × Int :=
  if p.pending.isEmpty then ([], 0) else takeBytes max 0 p.pending

/-- a fresh pool (`NewPool` on an empty database at state `(h, t)`) -/
def newPool (params : Params) (h : Nat) (t : Int) : Pool :=
  { params := params, height := h, time := t, pending := [], committed := [], pruneH := h, pruneT := t }

/-! ## operation sequences -/

inductive Op where
  | add (e : Evidence)
  | cons (e : Evidence)
  | check (l : List Evidence)
  | update (h : Nat) (t : Int) (l : List Evidence)
  | restart (h : Nat) (t : Int)
deriving Repr, Inhabited

/-- one operation in environment `env` (the environment may differ from step to step: the chain
grows); a panicking `update` leaves the pool as it is -/
def apply (env : Env) (p : Pool) : Op → Pool
  | .add e => (addEvidence env p e).1
  | .cons e => (addFromConsensus p e).1
  | .check l => (checkEvidence env p l).1
  | .update h t l => (update p h t l).getD p
  | .restart h t => restart p h t

def run (p : Pool) : List (Env × Op) → Pool
  | [] => p
  | (env, op) :: rest => run (apply env p op) rest

end KV.Evidence
