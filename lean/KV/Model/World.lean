import KV.Base.Hex
/-!
# Journalled world state (property C08)

Model of `kai/state` (`StateDB`, `stateObject`, `journal`, `accessList`, `transientStorage`).
Core Lean only.  Maps are total functions (`Addr → Option Obj`, `Slot → Word`, …) so that the undo of
a journal entry restores the state *exactly* (function extensionality), not merely up to lookups.

What is abstracted (tested by the differential, not proved):
* `stateObjects` is a cache over the account trie (lazy loading in `getDeletedStateObject`); the
  model identifies "cache ∪ trie" with one function `objs`.
* the storage tiers `dirtyStorage / pendingStorage / originStorage / storage trie / snapshot layers`
  are abstracted by the two functions they implement: `cur` (what `GetState` returns) and `com`
  (what `GetCommittedState` returns).  `stateObject.finalise` is `com := cur`.
* code hashes: `empty()` compares `CodeHash` with the hash of the empty code; the model compares
  `code = []`.  `dirtyCode` is not modelled.
* `journal.dirties` (a counter map) is represented by the journal itself: an address is dirty iff
  some entry of the journal names it (`dirtyAddrs`); the RIPEMD-160 precompile exception
  (`touch` of address 0x03 survives a revert) is *not* modelled: the address universe excludes 0x03.
* `resetObjectChange.prevAccount/prevStorage` (snapshot-layer write caches) are not modelled.
* state roots are not computed by the model (the Go oracle compares roots of real executions).
-/
namespace KV.World

abbrev Addr := Nat
abbrev Slot := Nat
abbrev Word := Nat
abbrev TxH := Nat

/-- function update -/
def upd {α : Type} (f : Nat → α) (k : Nat) (v : α) : Nat → α := fun x => if x = k then v else f x

/-- a `stateObject` -/
structure Obj where
  balance : Int
  nonce : Nat
  code : Bytes
  cur : Slot → Word      -- GetState
  com : Slot → Word      -- GetCommittedState
  suicided : Bool
  deleted : Bool
  inDirty : Bool         -- address ∈ stateObjectsDirty   (these two sets only ever contain addresses
  inPending : Bool       -- address ∈ stateObjectsPending  that have a live object; see `undo createObject`)

/-- `newObject(db, addr, StateAccount{})`; the address-keyed dirty/pending marks stay with the address -/
def Obj.new (inDirty inPending : Bool) : Obj := ⟨0, 0, [], fun _ => 0, fun _ => 0, false, false, inDirty, inPending⟩

/-- `stateObject.empty()` -/
def Obj.empty (o : Obj) : Bool := o.nonce == 0 && o.balance == 0 && o.code.isEmpty

structure Log where
  addr : Addr
  tag : Nat
  txh : TxH
  txi : Nat
  idx : Nat
deriving DecidableEq, Repr

/-- everything of a `StateDB` except journal and revisions -/
structure Core where
  objs : Addr → Option Obj
  destruct : Addr → Bool      -- stateObjectsDestruct
  refund : Nat
  logs : TxH → List Log
  logSize : Nat
  preimages : Nat → Option Bytes
  al : Addr → Option (Slot → Bool)   -- accessList: absent / present with a slot set
  transient : Addr → Slot → Word
  thash : TxH
  txIndex : Nat

def Core.init : Core :=
  { objs := fun _ => none, destruct := fun _ => false,
    refund := 0, logs := fun _ => [], logSize := 0, preimages := fun _ => none,
    al := fun _ => none, transient := fun _ _ => 0,
    thash := 0, txIndex := 0 }

/-- the journal entry kinds of `journal.go` -/
inductive Entry where
  | createObject (a : Addr)
  | resetObject (a : Addr) (prev : Obj) (prevdestruct : Bool)
  | suicide (a : Addr) (prev : Bool) (prevbalance : Int)
  | balance (a : Addr) (prev : Int)
  | nonce (a : Addr) (prev : Nat)
  | storage (a : Addr) (k : Slot) (prev : Word)
  | code (a : Addr) (prev : Bytes)
  | refund (prev : Nat)
  | addLog (txh : TxH)
  | addPreimage (h : Nat)
  | touch (a : Addr)
  | alAddAccount (a : Addr)
  | alAddSlot (a : Addr) (k : Slot)
  | transient (a : Addr) (k : Slot) (prev : Word)

/-- `journalEntry.dirtied()` -/
def Entry.dirtied : Entry → Option Addr
  | .createObject a => some a
  | .resetObject a _ _ => some a
  | .suicide a _ _ => some a
  | .balance a _ => some a
  | .nonce a _ => some a
  | .storage a _ _ => some a
  | .code a _ => some a
  | .touch a => some a
  | .refund _ => none
  | .addLog _ => none
  | .addPreimage _ => none
  | .alAddAccount _ => none
  | .alAddSlot _ _ => none
  | .transient _ _ _ => none

/-- `journal.dirties[a] > 0` -/
def dirtyAddrs (j : List Entry) (a : Addr) : Bool := j.any (fun e => e.dirtied == some a)

/-- `getStateObject` -/
def getObj (c : Core) (a : Addr) : Option Obj :=
  match c.objs a with
  | some o => if o.deleted then none else some o
  | none => none

def setObj (c : Core) (a : Addr) (o : Obj) : Core := { c with objs := upd c.objs a (some o) }

/-- modify the live object at `a` (`s.getStateObject(a).setX(..)`); the Go code would nil-deref when the
object is missing, which is unreachable from journal entries — the model leaves the state unchanged. -/
def modObj (c : Core) (a : Addr) (f : Obj → Obj) : Core :=
  match getObj c a with
  | some o => setObj c a (f o)
  | none => c

/-- `journalEntry.revert` -/
def undo : Entry → Core → Core
  | .createObject a, c => { c with objs := upd c.objs a none }   -- also leaves stateObjectsDirty
  | .resetObject a p pd, c =>
      { c with objs := upd c.objs a (some p), destruct := if pd then c.destruct else upd c.destruct a false }
  | .suicide a p b, c => modObj c a (fun o => { o with suicided := p, balance := b })
  | .balance a p, c => modObj c a (fun o => { o with balance := p })
  | .nonce a p, c => modObj c a (fun o => { o with nonce := p })
  | .storage a k p, c => modObj c a (fun o => { o with cur := upd o.cur k p })
  | .code a p, c => modObj c a (fun o => { o with code := p })
  | .refund p, c => { c with refund := p }
  | .addLog h, c => { c with logs := upd c.logs h (c.logs h).dropLast, logSize := c.logSize - 1 }
  | .addPreimage h, c => { c with preimages := upd c.preimages h none }
  | .touch _, c => c
  | .alAddAccount a, c => { c with al := upd c.al a none }        -- DeleteAddress
  | .alAddSlot a k, c =>                                           -- DeleteSlot (panics if the address is absent)
      match c.al a with
      | some f => { c with al := upd c.al a (some (upd f k false)) }
      | none => c
  | .transient a k p, c => { c with transient := upd c.transient a (upd (c.transient a) k p) }

/-- undo a journal suffix, last entry first (`journal.revert`) -/
def rewind (es : List Entry) (c : Core) : Core := es.foldr undo c

/-- the journalled operations of the `StateDB` API -/
inductive JOp where
  | addBalance (a : Addr) (v : Int)
  | subBalance (a : Addr) (v : Int)
  | setBalance (a : Addr) (v : Int)
  | setNonce (a : Addr) (n : Nat)
  | setCode (a : Addr) (code : Bytes)
  | setState (a : Addr) (k : Slot) (v : Word)
  | setTransient (a : Addr) (k : Slot) (v : Word)
  | createAccount (a : Addr)
  | suicide (a : Addr)
  | addRefund (g : Nat)
  | subRefund (g : Nat)
  | addLog (a : Addr) (tag : Nat)
  | addPreimage (h : Nat) (b : Bytes)
  | alAddAddr (a : Addr)
  | alAddSlot (a : Addr) (k : Slot)

/-- result of a call: normal return (with the boolean of `Suicide`), or a Go panic that the caller
recovered from (the state then is what the code had written before panicking) -/
inductive Status where
  | ok
  | okTrue
  | okFalse
  | panic
deriving DecidableEq, Repr

/-- `createObject`: returns the new core, the journal entry and the previous object (deleted or not) -/
def createObject (c : Core) (a : Addr) : Core × List Entry × Option Obj :=
  match c.objs a with
  | none => (setObj c a (Obj.new false false), [.createObject a], none)
  | some p =>
      ({ (setObj c a (Obj.new p.inDirty p.inPending)) with destruct := upd c.destruct a true },
       [.resetObject a p (c.destruct a)], some p)

/-- `GetOrNewStateObject` -/
def getOrNew (c : Core) (a : Addr) : Core × List Entry × Obj :=
  match getObj c a with
  | some o => (c, [], o)
  | none =>
      let r := createObject c a
      (r.1, r.2.1, match r.2.2 with | some p => Obj.new p.inDirty p.inPending | none => Obj.new false false)

def u64 : Nat := 18446744073709551616

/-- one journalled operation on the core: new core, appended journal entries, status -/
def jop : JOp → Core → Core × List Entry × Status
  | .addBalance a v, c =>
      let (c1, es, o) := getOrNew c a
      if v = 0 then
        if o.empty then (c1, es ++ [.touch a], .ok) else (c1, es, .ok)
      else (setObj c1 a { o with balance := o.balance + v }, es ++ [.balance a o.balance], .ok)
  | .subBalance a v, c =>
      let (c1, es, o) := getOrNew c a
      if v = 0 then (c1, es, .ok)
      else (setObj c1 a { o with balance := o.balance - v }, es ++ [.balance a o.balance], .ok)
  | .setBalance a v, c =>
      let (c1, es, o) := getOrNew c a
      (setObj c1 a { o with balance := v }, es ++ [.balance a o.balance], .ok)
  | .setNonce a n, c =>
      let (c1, es, o) := getOrNew c a
      (setObj c1 a { o with nonce := n }, es ++ [.nonce a o.nonce], .ok)
  | .setCode a code, c =>
      let (c1, es, o) := getOrNew c a
      (setObj c1 a { o with code := code }, es ++ [.code a o.code], .ok)
  | .setState a k v, c =>
      let (c1, es, o) := getOrNew c a
      if o.cur k = v then (c1, es, .ok)
      else (setObj c1 a { o with cur := upd o.cur k v }, es ++ [.storage a k (o.cur k)], .ok)
  | .setTransient a k v, c =>
      if c.transient a k = v then (c, [], .ok)
      else ({ c with transient := upd c.transient a (upd (c.transient a) k v) },
            [.transient a k (c.transient a k)], .ok)
  | .createAccount a, c =>
      let (c1, es, prev) := createObject c a
      match prev with
      | some p => if p.deleted then (c1, es, .ok)
                  else (setObj c1 a { Obj.new p.inDirty p.inPending with balance := p.balance }, es, .ok)
      | none => (c1, es, .ok)
  | .suicide a, c =>
      match getObj c a with
      | none => (c, [], .okFalse)
      | some o => (setObj c a { o with suicided := true, balance := 0 }, [.suicide a o.suicided o.balance], .okTrue)
  | .addRefund g, c => ({ c with refund := (c.refund + g) % u64 }, [.refund c.refund], .ok)
  | .subRefund g, c =>
      -- the entry is appended before the guard; on panic the counter is unchanged
      if g > c.refund then (c, [.refund c.refund], .panic)
      else ({ c with refund := c.refund - g }, [.refund c.refund], .ok)
  | .addLog a tag, c =>
      ({ c with logs := upd c.logs c.thash (c.logs c.thash ++ [⟨a, tag, c.thash, c.txIndex, c.logSize⟩]),
                logSize := c.logSize + 1 }, [.addLog c.thash], .ok)
  | .addPreimage h b, c =>
      match c.preimages h with
      | some _ => (c, [], .ok)
      | none => ({ c with preimages := upd c.preimages h (some b) }, [.addPreimage h], .ok)
  | .alAddAddr a, c =>
      match c.al a with
      | some _ => (c, [], .ok)
      | none => ({ c with al := upd c.al a (some fun _ => false) }, [.alAddAccount a], .ok)
  | .alAddSlot a k, c =>
      -- `accessList.AddSlot`: (address added, slot added); one journal entry per `true`
      match c.al a with
      | none => ({ c with al := upd c.al a (some (upd (fun _ => false) k true)) },
                 [.alAddAccount a, .alAddSlot a k], .ok)
      | some f =>
          if f k then (c, [], .ok)
          else ({ c with al := upd c.al a (some (upd f k true)) }, [.alAddSlot a k], .ok)

/-- a `StateDB` -/
structure World where
  core : Core
  journal : List Entry
  revs : List (Nat × Nat)     -- validRevisions: (id, journalIndex)
  nextId : Nat

def World.init : World := ⟨Core.init, [], [], 0⟩

/-- `sort.Search(len, revs[i].id >= id)` followed by the equality test of `RevertToSnapshot`;
returns (index in `validRevisions`, journal index) -/
def findRev (revs : List (Nat × Nat)) (id : Nat) : Option (Nat × Nat) :=
  let i := (revs.takeWhile (fun r => r.1 < id)).length
  match revs[i]? with
  | some r => if r.1 = id then some (i, r.2) else none
  | none => none

def snapshot (w : World) : World :=
  { w with revs := w.revs ++ [(w.nextId, w.journal.length)], nextId := w.nextId + 1 }

/-- `RevertToSnapshot`; `none` = the Go code panics ("revision id cannot be reverted") before touching anything -/
def revertTo (id : Nat) (w : World) : Option World :=
  match findRev w.revs id with
  | none => none
  | some (idx, j) =>
      some { w with core := rewind (w.journal.drop j) w.core, journal := w.journal.take j,
                    revs := w.revs.take idx }

/-- operations allowed inside a transaction -/
inductive Op where
  | j (o : JOp)
  | snapshot
  | revert (id : Nat)

def applyJ (o : JOp) (w : World) : World × Status :=
  let r := jop o w.core
  ({ w with core := r.1, journal := w.journal ++ r.2.1 }, r.2.2)

def step (o : Op) (w : World) : World × Status :=
  match o with
  | .j o => applyJ o w
  | .snapshot => (snapshot w, .ok)
  | .revert id =>
      match revertTo id w with
      | some w' => (w', .ok)
      | none => (w, .panic)

def run (ops : List Op) (w : World) : World := ops.foldl (fun w o => (step o w).1) w

/-! ### transaction / block boundary -/

/-- `Finalise(deleteEmptyObjects)` -/
def finalise (del : Bool) (w : World) : World :=
  let c := w.core
  let isD := dirtyAddrs w.journal
  let kill : Obj → Bool := fun o => o.suicided || (del && o.empty)
  { core :=
      { c with
        objs := fun a => match c.objs a with
          | none => none
          | some o => if isD a then
                        (if kill o then some { o with deleted := true, inDirty := true, inPending := true }
                         else some { o with com := o.cur, inDirty := true, inPending := true })
                      else some o
        destruct := fun a => match c.objs a with
          | none => c.destruct a
          | some o => if isD a && kill o then true else c.destruct a
        refund := if w.journal.isEmpty then c.refund else 0 },
    journal := [], revs := [], nextId := w.nextId }

/-- flush (`updateTrie → finalise(false)`) the non-deleted objects of the pending set, and empty the set -/
def flushPending (objs : Addr → Option Obj) : Addr → Option Obj :=
  fun a => match objs a with
    | none => none
    | some o => if o.inPending && !o.deleted then some { o with com := o.cur, inPending := false }
                else some { o with inPending := false }

/-- the same for the dirty set (`Commit`) -/
def flushDirty (objs : Addr → Option Obj) : Addr → Option Obj :=
  fun a => match objs a with
    | none => none
    | some o => if o.inDirty && !o.deleted then some { o with com := o.cur, inDirty := false }
                else some { o with inDirty := false }

/-- `IntermediateRoot(deleteEmptyObjects)` (the root itself is not modelled) -/
def iroot (del : Bool) (w : World) : World :=
  let w1 := finalise del w
  { w1 with core := { w1.core with objs := flushPending w1.core.objs } }

/-- `Commit(deleteEmptyObjects)` -/
def commit (del : Bool) (w : World) : World :=
  let w1 := iroot del w
  { w1 with core := { w1.core with objs := flushDirty w1.core.objs, destruct := fun _ => false } }

/-- `Prepare(thash, bhash, ti)` -/
def prepare (h : TxH) (ti : Nat) (w : World) : World :=
  { w with core := { w.core with thash := h, txIndex := ti } }

/-- `Copy()`: no journal, no revisions, tx context zero; the objects named by the journal are marked
dirty and pending in the copy -/
def copy (w : World) : World :=
  let c := w.core
  let isD := dirtyAddrs w.journal
  { core := { c with objs := fun a => match c.objs a with
                        | none => none
                        | some o =>
                            if isD a then some { o with inDirty := true, inPending := true }
                            else if o.inDirty || o.inPending then some o
                            -- clean objects are not copied but re-read from the (copied) trie, where a
                            -- deleted and flushed account is simply absent
                            else if o.deleted then none else some { o with cur := o.com, suicided := false },
                     thash := 0, txIndex := 0 },
    journal := [], revs := [], nextId := 0 }

/-- the persistent content: what a state reopened at the committed root sees -/
structure Account where
  balance : Int
  nonce : Nat
  code : Bytes
  storage : Slot → Word

def content (w : World) (a : Addr) : Option Account :=
  match w.core.objs a with
  | none => none
  | some o => if o.deleted then none else some ⟨o.balance, o.nonce, o.code, o.com⟩

/-- `New(root, db, snaps)` at the root returned by `Commit` of `w` -/
def reopen (w : World) : World :=
  { core := { Core.init with
      objs := fun a => (content w a).map fun acc =>
        ⟨acc.balance, acc.nonce, acc.code, acc.storage, acc.storage, false, false, false, false⟩ },
    journal := [], revs := [], nextId := 0 }

/-! ### observation: every getter of the `StateDB` API -/

structure Observation where
  exist : Addr → Bool
  empty : Addr → Bool
  suicided : Addr → Bool
  balance : Addr → Int
  nonce : Addr → Nat
  code : Addr → Bytes
  state : Addr → Slot → Word
  committed : Addr → Slot → Word
  refund : Nat
  logs : TxH → List Log
  logSize : Nat
  preimages : Nat → Option Bytes
  addrInAL : Addr → Bool
  slotInAL : Addr → Slot → Bool × Bool
  transient : Addr → Slot → Word

def obsCore (c : Core) : Observation :=
  { exist := fun a => (getObj c a).isSome
    empty := fun a => match getObj c a with | some o => o.empty | none => true
    suicided := fun a => match getObj c a with | some o => o.suicided | none => false
    balance := fun a => match getObj c a with | some o => o.balance | none => 0
    nonce := fun a => match getObj c a with | some o => o.nonce | none => 0
    code := fun a => match getObj c a with | some o => o.code | none => []
    state := fun a k => match getObj c a with | some o => o.cur k | none => 0
    committed := fun a k => match getObj c a with | some o => o.com k | none => 0
    refund := c.refund
    logs := c.logs
    logSize := c.logSize
    preimages := c.preimages
    addrInAL := fun a => (c.al a).isSome
    slotInAL := fun a k => match c.al a with | some f => (true, f k) | none => (false, false)
    transient := c.transient }

def obs (w : World) : Observation := obsCore w.core

end KV.World
