import KV.Base.Wire
import KV.Model.SignBytes
import KV.Model.PartSet
/-!
# What the block hash and the commit hash are computed over

* `headerBytes`: the exact bytes `types.Header.Hash()` hashes — `h.ToProto().Marshal()`, the
  gogo-proto generated marshaler of `kproto.Header` (`proto/kardiachain/types/types.pb.go`) fed by
  `Header.ToProto` (`types/block.go`). Thirteen fields of `types.Header` reach the wire, in
  ascending field-number order:

  | # | wire field | Go field | rule |
  |---|---|---|---|
  | 3 | height (varint) | `Height uint64` | omitted when 0 |
  | 4 | time (message `Timestamp{1: seconds, 2: nanos}`) | `Time time.Time` | always written |
  | 5 | last_block_id (message `BlockID{1: hash, 2: PartSetHeader{1: total, 2: hash}}`) | `LastBlockID` | always written |
  | 6 | last_commit_hash (bytes) | `LastCommitHash.Bytes()` | omitted when empty |
  | 7 | data_hash | `TxHash.Bytes()` | 〃 |
  | 8 | validators_hash | `ValidatorsHash.Bytes()` | 〃 |
  | 9 | next_validators_hash | `NextValidatorsHash.Bytes()` | 〃 |
  | 10 | consensus_hash | `ConsensusHash.Bytes()` | 〃 |
  | 11 | app_hash | `AppHash.Bytes()` | 〃 |
  | 13 | evidence_hash | `EvidenceHash.Bytes()` | 〃 |
  | 14 | proposer_address | `ProposerAddress.Bytes()` | 〃 |
  | 15 | gas_limit (varint) | `GasLimit uint64` | omitted when 0 |
  | 16 | num_txs (varint, two-byte key `80 01`) | `NumTxs uint64` | omitted when 0 |

  Wire field 2 (`chain_id`) exists in `kproto.Header` but `Header.ToProto` never sets it (and
  `HeaderFromProto` ignores it). `common.Hash.Bytes()` is always 32 bytes and
  `common.Address.Bytes()` always 20, so in the code the byte fields are never empty; the model
  takes arbitrary byte strings. `kproto.BlockID`/`PartSetHeader` have the same wire shape as the
  canonical ones of `KV.SignBytes` (`blockIDBody`, `pshBody`), which are reused.
  `none` = `Marshal` fails (`StdTimeMarshalTo`: time outside year 1..9999) and `Header.Hash` panics.
* `blockHash K h`: `hash(bz)` = Keccak-256 (`K`) of those bytes.
* `sigBytes` / `commitHash`: `Commit.Hash()` = `common.BytesToHash(merkle.SimpleHashFromByteSlices(
  [CommitSig.ToProto().Marshal() …]))` — it covers the signature list only (not the commit's
  height, round, block id).

Ranges of the Go types (the model is over unbounded `Nat`/`Int` and is bit-exact inside them):
`height, gasLimit, numTxs : uint64`, `total : uint32`, `secs : int64`, `nanos ∈ [0, 1e9)`,
`flag : byte`. Core only.
-/
namespace KV.HeaderWire
open KV KV.Wire KV.SignBytes

/-- `types.Header` -/
structure Header where
  height : Nat
  time : Time
  numTxs : Nat
  gasLimit : Nat
  lastBlockID : BlockID
  proposer : Bytes
  lastCommitHash : Bytes
  txHash : Bytes
  validatorsHash : Bytes
  nextValidatorsHash : Bytes
  consensusHash : Bytes
  appHash : Bytes
  evidenceHash : Bytes
deriving DecidableEq, Repr

/-- `kproto.Header.Marshal` fed by `Header.ToProto` -/
def headerBody (h : Header) : Bytes :=
  fVarint 3 h.height ++ (fMsg 4 (tsBody h.time) ++ (fMsg 5 (blockIDBody h.lastBlockID) ++
    (fBytes 6 h.lastCommitHash ++ (fBytes 7 h.txHash ++ (fBytes 8 h.validatorsHash ++
      (fBytes 9 h.nextValidatorsHash ++ (fBytes 10 h.consensusHash ++ (fBytes 11 h.appHash ++
        (fBytes 13 h.evidenceHash ++ (fBytes 14 h.proposer ++ (fVarint 15 h.gasLimit ++
          fVarint 16 h.numTxs)))))))))))

/-- the bytes hashed by `Header.Hash()`; `none` = marshal error = panic -/
def headerBytes (h : Header) : Option Bytes :=
  if h.time.valid then some (headerBody h) else none

/-- `Header.Hash()` for the hash function `K` (Keccak-256 in the code) -/
def blockHash (K : Bytes → Bytes) (h : Header) : Option Bytes := (headerBytes h).map K

/-! ## commit signatures -/

/-- `types.CommitSig` -/
structure CommitSig where
  flag : Nat
  validatorAddress : Bytes
  timestamp : Time
  signature : Bytes
deriving DecidableEq, Repr

/-- `kproto.CommitSig.Marshal` fed by `CommitSig.ToProto` -/
def sigBody (s : CommitSig) : Bytes :=
  fVarint 1 s.flag ++ (fBytes 2 s.validatorAddress ++ (fMsg 3 (tsBody s.timestamp) ++
    fBytes 4 s.signature))

/-- `none` = marshal error = `Commit.Hash` panics -/
def sigBytes (s : CommitSig) : Option Bytes :=
  if s.timestamp.valid then some (sigBody s) else none

def allSigBytes : List CommitSig → Option (List Bytes)
  | [] => some []
  | s :: rest =>
    match sigBytes s, allSigBytes rest with
    | some b, some bs => some (b :: bs)
    | _, _ => none

/-- `Commit.Hash()` for the Merkle hash `H` (SHA-256 in the code) -/
def commitHash (H : Bytes → Bytes) (sigs : List CommitSig) : Option Bytes :=
  (allSigBytes sigs).map fun bs => PartSet.bytesToHash (Merkle.root H bs)

end KV.HeaderWire
