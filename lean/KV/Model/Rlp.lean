import KV.Base.Hex
/-!
# RLP (model of `/repo/lib/rlp`)

`Item` is the untyped RLP value (what `rlp.DecodeBytes(b, &interface{})` produces and what
`rlp.EncodeToBytes` consumes for `[]byte` / `[]interface{}` trees).  `enc` is the encoder,
`dec` the *strict* decoder with the canonical-form checks of `Stream.readKind`,
`Stream.readUint` and `Stream.Bytes` (`decode.go`) / `readKind`, `readSize` (`raw.go`):

* a single byte `< 0x80` is its own encoding and must not be wrapped (`ErrCanonSize`);
* the long form is only allowed for sizes `≥ 56` (`ErrCanonSize`);
* a long-form size has no leading zero byte (`ErrCanonSize`) and at most 8 bytes;
* the declared size must fit in the remaining input (`ErrValueTooLarge`/`ErrUnexpectedEOF`);
* a list payload must be consumed exactly by its items (`ErrElemTooLarge`/`errNotAtEOL`).

Bytes are `UInt8`; the recursion is by fuel (`2 * length + 2` always suffices, proved in
`KV/Props/C16.lean`).
-/
namespace KV.Rlp

mutual
inductive Item where
  | str : Bytes → Item
  | list : Items → Item
inductive Items where
  | nil : Items
  | cons : Item → Items → Items
end

def Items.toList : Items → List Item
  | .nil => []
  | .cons x xs => x :: xs.toList

def Items.ofList : List Item → Items
  | [] => .nil
  | x :: xs => .cons x (Items.ofList xs)

/-- minimal big-endian bytes of a number (empty for 0) -/
def beBytes : Nat → Bytes
  | 0 => []
  | n+1 => beBytes ((n+1) / 256) ++ [UInt8.ofNat ((n+1) % 256)]
decreasing_by omega

/-- big-endian value of a byte string -/
def beVal (bs : Bytes) : Nat := bs.foldl (fun a b => a * 256 + b.toNat) 0

/-- header for a payload of `len` bytes; `off` is 0x80 for strings, 0xC0 for lists -/
def header (off : Nat) (len : Nat) : Bytes :=
  if len < 56 then [UInt8.ofNat (off + len)] else
    let lb := beBytes len
    UInt8.ofNat (off + 55 + lb.length) :: lb

mutual
def enc : Item → Bytes
  | .str bs =>
    match bs with
    | [b] => if b.toNat < 128 then [b] else header 128 1 ++ [b]
    | _ => header 128 bs.length ++ bs
  | .list xs => let p := encs xs; header 192 p.length ++ p
def encs : Items → Bytes
  | .nil => []
  | .cons x xs => enc x ++ encs xs
end

/-- long-form size: `k` big-endian bytes, no leading zero, value ≥ 56
(`readUint` + the `size < 56` test of `readKind`) -/
def readLen (k : Nat) (rest : Bytes) : Option (Nat × Bytes) :=
  if rest.length < k then none else
  let lb := rest.take k
  if lb.head? = some 0 then none else
  let len := beVal lb
  if len < 56 then none else some (len, rest.drop k)

/-- result of reading a header: kind (true = list), payload length, bytes after the header.
`none` = rejected.  A single byte `< 0x80` is *not* handled here. -/
def decHeader (b : UInt8) (rest : Bytes) : Option (Bool × Nat × Bytes) :=
  let n := b.toNat
  if n < 184 then some (false, n - 128, rest)
  else if n < 192 then
    match readLen (n - 183) rest with
    | none => none
    | some (len, r) => some (false, len, r)
  else if n < 248 then some (true, n - 192, rest)
  else
    match readLen (n - 247) rest with
    | none => none
    | some (len, r) => some (true, len, r)

mutual
/-- decode one item from the front of the input -/
def dec : Nat → Bytes → Option (Item × Bytes)
  | 0, _ => none
  | fuel+1, bs =>
    match bs with
    | [] => none
    | b :: rest =>
      if b.toNat < 128 then some (.str [b], rest) else
      match decHeader b rest with
      | none => none
      | some (false, len, r) =>
        if r.length < len then none else
        let payload := r.take len
        match payload with
        | [c] => if c.toNat < 128 then none else some (.str payload, r.drop len)
        | _ => some (.str payload, r.drop len)
      | some (true, len, r) =>
        if r.length < len then none else
        match decs fuel (r.take len) with
        | none => none
        | some xs => some (.list xs, r.drop len)
/-- decode a whole list payload (must be consumed exactly) -/
def decs : Nat → Bytes → Option Items
  | 0, _ => none
  | fuel+1, bs =>
    match bs with
    | [] => some .nil
    | _ :: _ =>
      match dec fuel bs with
      | none => none
      | some (x, rest) =>
        match decs fuel rest with
        | none => none
        | some xs => some (.cons x xs)
end

/-- top-level strict decoding: exactly one value, no trailing bytes (`rlp.DecodeBytes`) -/
def decode (bs : Bytes) : Option Item :=
  match dec (2 * bs.length + 2) bs with
  | some (x, []) => some x
  | _ => none

/-- `rlp.Split`-like: first value and the rest -/
def split (bs : Bytes) : Option (Item × Bytes) := dec (2 * bs.length + 2) bs

/-! ## typed layer: unsigned integers (`uint64`, `*big.Int`) -/

/-- `rlp` encoding of a non-negative integer: minimal big-endian bytes as a string -/
def encNat (n : Nat) : Bytes := enc (.str (beBytes n))

/-- decoding an integer: a string without leading zero -/
def itemToNat : Item → Option Nat
  | .str bs => if bs.head? = some 0 then none else some (beVal bs)
  | .list _ => none

def decNat (bs : Bytes) : Option Nat := (decode bs).bind itemToNat

/-- bounded integer (`uint8/16/32/64`): at most `w` bytes -/
def itemToUint (w : Nat) : Item → Option Nat
  | .str bs => if bs.head? = some 0 ∨ bs.length > w then none else some (beVal bs)
  | .list _ => none

/-! ## printing / parsing for the driver -/

mutual
partial def Item.show : Item → String
  | .str bs => "s" ++ toHexTok bs
  | .list xs => "[" ++ Items.show xs ++ "]"
partial def Items.show : Items → String
  | .nil => ""
  | .cons x .nil => Item.show x
  | .cons x xs => Item.show x ++ "," ++ Items.show xs
end

/-- parse the textual item syntax produced by `Item.show` (and by the Go harness):
`s<hex>` | `s-` | `[item,item,...]` -/
partial def parseItem : List Char → Option (Item × List Char)
  | 's' :: cs =>
    let tok := cs.takeWhile (fun c => c ≠ ',' ∧ c ≠ ']')
    let rest := cs.dropWhile (fun c => c ≠ ',' ∧ c ≠ ']')
    match ofHex (String.ofList tok) with
    | some bs => some (.str bs, rest)
    | none => none
  | '[' :: cs =>
    let rec go (cs : List Char) (acc : List Item) : Option (List Item × List Char) :=
      match cs with
      | ']' :: rest => some (acc.reverse, rest)
      | _ =>
        match parseItem cs with
        | some (x, ',' :: rest) => go rest (x :: acc)
        | some (x, ']' :: rest) => some ((x :: acc).reverse, rest)
        | _ => none
    match go cs [] with
    | some (xs, rest) => some (.list (Items.ofList xs), rest)
    | none => none
  | _ => none

def parseItemStr (s : String) : Option Item :=
  match parseItem s.toList with
  | some (x, []) => some x
  | _ => none

end KV.Rlp

namespace KV.Rlp

/-! ## shallow functions of `raw.go` -/

/-- `rlp.Split`: kind (0 byte, 1 string, 2 list), content, rest — only the outer header is
examined -/
def rawSplit (bs : Bytes) : Option (Nat × Bytes × Bytes) :=
  match bs with
  | [] => none
  | b :: rest =>
    if b.toNat < 128 then some (0, [b], rest) else
    match decHeader b rest with
    | none => none
    | some (false, len, r) =>
      if r.length < len then none else
      match r.take len with
      | [c] => if c.toNat < 128 then none else some (1, [c], r.drop len)
      | p => some (1, p, r.drop len)
    | some (true, len, r) =>
      if r.length < len then none else some (2, r.take len, r.drop len)

/-- `rlp.CountValues` -/
def countValues : Nat → Bytes → Option Nat
  | 0, _ => none
  | fuel+1, bs =>
    match bs with
    | [] => some 0
    | _ :: _ =>
      match rawSplit bs with
      | none => none
      | some (_, _, rest) => (countValues fuel rest).map (· + 1)

/-! ## typed layer used by the differential (what `decode.go` does per Go type) -/

def itemToBool : Item → Option Bool
  | .str [] => some false
  | .str [b] => if b.toNat = 1 then some true else none
  | _ => none

def itemToBytes : Item → Option Bytes
  | .str bs => some bs
  | .list _ => none

/-- fixed-size byte array `[n]byte`: exactly `n` bytes -/
def itemToArray (n : Nat) : Item → Option Bytes
  | .str bs => if bs.length = n then some bs else none
  | .list _ => none

def Items.mapM {α} (f : Item → Option α) : Items → Option (List α)
  | .nil => some []
  | .cons x xs => do let a ← f x; let as ← Items.mapM f xs; pure (a :: as)

/-- `struct { A uint64; B []byte; C *big.Int; D []uint64 "tail" }` -/
def toStructS : Item → Option (Nat × Bytes × Nat × List Nat)
  | .list (.cons a (.cons b (.cons c d))) => do
    let a ← itemToUint 8 a
    let b ← itemToBytes b
    let c ← itemToNat c
    let d ← Items.mapM (itemToUint 8) d
    pure (a, b, c, d)
  | _ => none

/-- `struct { A uint64; B uint64 "optional"; C []byte "optional" }` (missing = zero value) -/
def toStructO : Item → Option (Nat × Nat × Bytes)
  | .list (.cons a .nil) => do let a ← itemToUint 8 a; pure (a, 0, [])
  | .list (.cons a (.cons b .nil)) => do
    let a ← itemToUint 8 a; let b ← itemToUint 8 b; pure (a, b, [])
  | .list (.cons a (.cons b (.cons c .nil))) => do
    let a ← itemToUint 8 a; let b ← itemToUint 8 b; let c ← itemToBytes c; pure (a, b, c)
  | _ => none

end KV.Rlp
