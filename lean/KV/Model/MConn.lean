import KV.Base.Hex
/-!
# Model of MConnection packetisation (lib/p2p/conn/connection.go)

Sender side of a `Channel`: `sendQueue` (FIFO of whole messages), `sending` (rest of the message
being packetised; `nil` = no message in flight, a dequeued empty message is a non-nil empty
slice and stays in flight until its EOF packet is sent – fix of finding C20-E1);
`isSendPending`, `nextPacketMsg`.  Receiver side: `recving`,
`recvPacketMsg` with the `RecvMessageCapacity` check.  `sendPacketMsg` calls `isSendPending`
on *every* channel (which dequeues!) and then picks one pending channel by
`recentlySent/priority`; the pick is abstracted to an arbitrary pending channel, so the theorems
hold for every scheduler.  The wire between the two sides is FIFO (that is C20's stream
theorem), hence the receiver is run in lock-step on each packet as it is produced.
Core Lean only.
-/
namespace KV.MConn
open KV

structure Packet where
  chID : Nat
  eof : Bool
  data : Bytes
deriving Repr, DecidableEq

/-- one channel, both ends, plus two ghost fields used only to state the property:
`enq` = every message accepted by `Send` so far, `delivered` = every message handed to
`onReceive` so far. -/
structure Chan where
  queue : List Bytes := []      -- sendQueue
  sending : Option Bytes := none -- ch.sending: `none` = nil = no message in flight,
                                 -- `some []` = non-nil empty slice = an empty message in flight
  recving : Bytes := []         -- ch.recving
  delivered : List Bytes := []  -- ghost
  enq : List Bytes := []        -- ghost
deriving Repr, DecidableEq

/-- `isSendPending`: note the dequeue as a side effect.  It happens only when `ch.sending == nil`;
the dequeued message is stored non-nil (`if ch.sending == nil { ch.sending = []byte{} }`), i.e. as
`some m` also when `m` is empty (`Send(nil)` and `Send([]byte{})` are the same message `[]`). -/
def isSendPending (c : Chan) : Bool × Chan :=
  match c.sending with
  | none =>
    match c.queue with
    | [] => (false, c)
    | m :: q => (true, { c with sending := some m, queue := q })
  | some _ => (true, c)

/-- `nextPacketMsg`.  Slicing/`len` of a nil slice behave as for the empty slice (`getD []`; the
code calls it only after `isSendPending` returned true, i.e. on `some _`).  At EOF
`ch.sending = nil`; otherwise the rest `sending[min(maxSize,len):]`, non-nil. -/
def nextPacket (maxSize : Nat) (id : Nat) (c : Chan) : Packet × Chan :=
  let s := c.sending.getD []
  let data := s.take (min maxSize s.length)
  if s.length ≤ maxSize then
    (⟨id, true, data⟩, { c with sending := none })
  else
    (⟨id, false, data⟩, { c with sending := some (s.drop (min maxSize s.length)) })

/-- `recvPacketMsg`: `none` = error "received message exceeds available capacity";
`some (some m, _)` = message complete -/
def recvPacket (cap : Nat) (recving : Bytes) (p : Packet) : Option (Option Bytes × Bytes) :=
  if cap < recving.length + p.data.length then none
  else
    let r := recving ++ p.data
    if p.eof then some (some r, []) else some (none, r)

/-- the packets of one message sent alone on a channel (`fuel` ≥ number of packets) -/
def packetize (maxSize id : Nat) : Nat → Bytes → List Packet
  | 0, _ => []
  | fuel + 1, s =>
    let (p, c) := nextPacket maxSize id { sending := some s }
    if p.eof then [p] else p :: packetize maxSize id fuel (c.sending.getD [])

/-- feed packets of one channel to a receiver: delivered messages, or `none` on error together
with what had been delivered before -/
def recvAll (cap : Nat) : Bytes → List Packet → List Bytes × Bool
  | _, [] => ([], true)
  | recving, p :: ps =>
    match recvPacket cap recving p with
    | none => ([], false)
    | some (some m, r) => let (d, ok) := recvAll cap r ps; (m :: d, ok)
    | some (none, r) => recvAll cap r ps

/-! ### the two connected MConnections -/

structure Sys where
  ch : Nat → Chan
  err : Bool := false        -- receiver stopped with an error (onError fired)
  wire : List Packet := []   -- ghost: packets sent, most recent first

def upd (f : Nat → Chan) (i : Nat) (c : Chan) : Nat → Chan := fun j => if j = i then c else f j

inductive Act
  | send (ch : Nat) (msg : Bytes)   -- `Send(chID, msg)` accepted into the queue
  | pkt (pick : Nat)                -- one `sendPacketMsg` in which the scheduler picks `pick`

/-- the sweep of `sendPacketMsg` over all channels -/
def sweep (f : Nat → Chan) : Nat → Chan := fun j => (isSendPending (f j)).2

def pending (f : Nat → Chan) (j : Nat) : Bool := (isSendPending (f j)).1

/-- one action.  `caps j` = `RecvMessageCapacity` of channel `j`.  A `pkt` whose pick is not
pending changes nothing but the sweep (the real scheduler never does that; it returns "nothing to
send" only when no channel is pending). After a receive error nothing more is processed. -/
def step (maxSize : Nat) (caps : Nat → Nat) (s : Sys) : Act → Sys
  | .send i m =>
    { s with ch := upd s.ch i { s.ch i with queue := (s.ch i).queue ++ [m], enq := (s.ch i).enq ++ [m] } }
  | .pkt i =>
    if s.err then s else
    let f := sweep s.ch
    if pending s.ch i then
      let (p, c) := nextPacket maxSize i (f i)
      match recvPacket (caps i) c.recving p with
      | none => { ch := upd f i c, err := true, wire := p :: s.wire }
      | some (some m, r) =>
        { ch := upd f i { c with recving := r, delivered := c.delivered ++ [m] }, err := false, wire := p :: s.wire }
      | some (none, r) => { ch := upd f i { c with recving := r }, err := false, wire := p :: s.wire }
    else { s with ch := f }

def run (maxSize : Nat) (caps : Nat → Nat) (s : Sys) (acts : List Act) : Sys :=
  acts.foldl (step maxSize caps) s

def init : Sys := { ch := fun _ => {} }

/-- nothing left to send on the channel: queue empty and no message in flight (`sending == nil`) -/
def idle (c : Chan) : Prop := c.queue = [] ∧ c.sending = none

instance (c : Chan) : Decidable (idle c) := by unfold idle; infer_instance

end KV.MConn
