import KV.Model.Rlp
/-!
# Merkle Patricia trie (model of `/repo/trie`)

Nodes as in `trie/node.go`: `nil | valueNode | shortNode{Key, Val} | fullNode{Children [17]node} |
hashNode`.  Keys are in HEX form (`encoding.go`): one `Nat` per nibble, `16` is the terminator.
The 17 children of a full node are a function `Nat → Node` (only indices `0..16` are ever used;
index `> 16` is the Go `index out of range` panic and is modelled as such).

Results are `Option …` where `none` stands for *the Go code panics or needs the node database*
(`index out of range`, `invalid node`, an unresolved `hashNode`).  The pure model has no
database: `commit`/`reopen`/`copy` are the identity on it, which is precisely the claim of C07
that the differential checks.

`get`, `insert`, `delete` follow `trie.go` branch by branch, including the `dirty` result.
The hasher (`hasher.go`, `node_enc.go`) is parametrised by the hash function `H`.
-/
namespace KV.Trie
open KV KV.Rlp

abbrev Key := List Nat

inductive Node where
  | nil : Node
  | value (v : Bytes) : Node
  | short (key : Key) (val : Node) : Node
  | full (cs : Nat → Node) : Node
  | hash (h : Bytes) : Node

instance : Inhabited Node := ⟨.nil⟩

def Node.isNil : Node → Bool
  | .nil => true
  | _ => false

/-- `fullNode{}`: all children nil -/
def emptyCs : Nat → Node := fun _ => .nil

/-- `n.Children[i] = c` -/
def setC (cs : Nat → Node) (i : Nat) (c : Node) : Nat → Node :=
  fun j => if j = i then c else cs j

/-! ## key encodings (`encoding.go`) -/

/-- `keybytesToHex` -/
def keybytesToHex : Bytes → Key
  | [] => [16]
  | b :: bs => b.toNat / 16 :: b.toNat % 16 :: keybytesToHex bs

/-- `hasTerm` -/
def hasTerm (k : Key) : Bool := k.getLast? == some 16

/-- `decodeNibbles`: pairs of nibbles to bytes (`nibbles[ni]<<4 | nibbles[ni+1]`; the callers
guarantee an even number of nibbles `< 16`) -/
def decodeNibbles : Key → Bytes
  | a :: b :: r => UInt8.ofNat (a * 16 + b) :: decodeNibbles r
  | _ => []

/-- `hexToCompact` -/
def hexToCompact (hex : Key) : Bytes :=
  let t := if hasTerm hex then 1 else 0
  let hex := if hasTerm hex then hex.dropLast else hex
  if hex.length % 2 = 1 then
    UInt8.ofNat (t * 32 + 16 + hex.headD 0) :: decodeNibbles hex.tail
  else
    UInt8.ofNat (t * 32) :: decodeNibbles hex

/-- `compactToHex` -/
def compactToHex (compact : Bytes) : Key :=
  match compact with
  | [] => []
  | _ :: _ =>
    let base := keybytesToHex compact
    let flag := base.headD 0
    let base := if flag < 2 then base.dropLast else base
    base.drop (2 - flag % 2)

/-- `hexToKeybytes`; `none` = the Go panic on odd length -/
def hexToKeybytes (hex : Key) : Option Bytes :=
  let hex := if hasTerm hex then hex.dropLast else hex
  if hex.length % 2 = 1 then none else some (decodeNibbles hex)

/-- `prefixLen` -/
def prefixLen : Key → Key → Nat
  | a :: as, b :: bs => if a = b then prefixLen as bs + 1 else 0
  | _, _ => 0

/-! ## `Trie.get` -/

/-- `Trie.get` (`trie.go`).  `some none` = not found, `none` = panic / unresolved hash node. -/
def get : Node → Key → Option (Option Bytes)
  | .nil, _ => some none
  | .value v, _ => some (some v)
  | .short sk c, k => if sk.isPrefixOf k then get c (k.drop sk.length) else some none
  | .full _, [] => none
  | .full cs, x :: k => if x > 16 then none else get (cs x) k
  | .hash _, _ => none

/-! ## `Trie.insert` -/

/-- `t.insert(nil, _, key, value)` for an arbitrary node `value` (used when a short node is split):
the node itself when the key is empty, else a new short node -/
def mkLeaf (k : Key) (v : Node) : Node := if k = [] then v else .short k v

/-- `Trie.insert` (`trie.go`); result `(dirty, node)`; `none` = panic / unresolved -/
def insert : Node → Key → Bytes → Option (Bool × Node)
  | .nil, k, v => if k = [] then some (true, .value v) else some (true, .short k (.value v))
  | .value w, k, v => if k = [] then some (decide (w ≠ v), .value v) else none
  | .hash _, k, v => if k = [] then some (true, .value v) else none
  | .short sk c, k, v =>
    if k = [] then some (true, .value v) else
    let m := prefixLen k sk
    if m = sk.length then
      match insert c (k.drop m) v with
      | none => none
      | some (false, _) => some (false, .short sk c)
      | some (true, c') => some (true, .short sk c')
    else
      match k[m]? with
      | none => none
      | some b =>
        let a := sk.getD m 0
        if a > 16 ∨ b > 16 then none else
        let branch := Node.full (setC (setC emptyCs a (mkLeaf (sk.drop (m + 1)) c)) b
                        (mkLeaf (k.drop (m + 1)) (.value v)))
        if m = 0 then some (true, branch) else some (true, .short (k.take m) branch)
  | .full cs, k, v =>
    match k with
    | [] => some (true, .value v)
    | x :: k' =>
      if x > 16 then none else
      match insert (cs x) k' v with
      | none => none
      | some (false, _) => some (false, .full cs)
      | some (true, c') => some (true, .full (setC cs x c'))

/-! ## `Trie.delete` -/

/-- the loop computing `pos` in `delete`: `some i` iff exactly one child (index `i`) is non-nil -/
def onlyChild (cs : Nat → Node) : Option Nat :=
  match (List.range 17).filter (fun i => !(cs i).isNil) with
  | [i] => some i
  | _ => none

/-- `Trie.delete` (`trie.go`); result `(dirty, node)`; `none` = panic / unresolved -/
def delete : Node → Key → Option (Bool × Node)
  | .short sk c, k =>
    let m := prefixLen k sk
    if m < sk.length then some (false, .short sk c)
    else if m = k.length then some (true, .nil)
    else
      match delete c (k.drop sk.length) with
      | none => none
      | some (false, _) => some (false, .short sk c)
      | some (true, .short ck cv) => some (true, .short (sk ++ ck) cv)
      | some (true, c') => some (true, .short sk c')
  | .full cs, k =>
    match k with
    | [] => none
    | x :: k' =>
      if x > 16 then none else
      match delete (cs x) k' with
      | none => none
      | some (false, _) => some (false, .full cs)
      | some (true, nn) =>
        let cs' := setC cs x nn
        if !nn.isNil then some (true, .full cs') else
        match onlyChild cs' with
        | none => some (true, .full cs')
        | some pos =>
          if pos ≠ 16 then
            match cs' pos with
            | .short ck cv => some (true, .short (pos :: ck) cv)
            | .hash _ => none
            | c => some (true, .short [pos] c)
          else some (true, .short [pos] (cs' pos))
  | .value _, _ => some (true, .nil)
  | .nil, _ => some (false, .nil)
  | .hash _, _ => none

/-- `Trie.Update`: an empty value deletes.  `none` = panic. -/
def update (t : Node) (key : Key) (v : Bytes) : Option Node :=
  if v ≠ [] then (insert t key v).map (·.2) else (delete t key).map (·.2)

/-! ## hashing (`hasher.go`, `node_enc.go`) -/

/-- `types.EmptyRootHash` (a constant in the code; equals `keccak256 [0x80]`, see the `#guard`
in `KV/Drv/C07.lean`) -/
def emptyRoot : Bytes :=
  [0x56, 0xe8, 0x1f, 0x17, 0x1b, 0xcc, 0x55, 0xa6, 0xff, 0x83, 0x45, 0xe6, 0x92, 0xc0, 0xf8, 0x6e,
   0x5b, 0x48, 0xe0, 0x1b, 0x99, 0x6c, 0xad, 0xc0, 0x01, 0x62, 0x2f, 0xb5, 0xe3, 0x63, 0xb4, 0x21]

/-- `shortnodeToHash` / `fullnodeToHash` with `force = false`: a collapsed node whose encoding is
shorter than 32 bytes is stored inside its parent, otherwise it is replaced by its hash -/
def ref (H : Bytes → Bytes) (it : Item) : Item :=
  let e := enc it
  if e.length < 32 then it else .str (H e)

/-- `n.encode` of an *uncollapsed* node (only reachable for a non-value node in slot 16 of a full
node, which no reachable trie has; kept for faithfulness) -/
def rawItem : Node → Item
  | .nil => .str []
  | .value v => .str v
  | .hash h => .str h
  | .short k c => .list (.cons (.str (k.map UInt8.ofNat)) (.cons (rawItem c) .nil))
  | .full cs => .list (Items.ofList ((List.range 17).map fun i => rawItem (cs i)))

/-- the collapsed form of a node as an RLP item: `hashShortNodeChildren` /
`hashFullNodeChildren` followed by `encode` -/
def item (H : Bytes → Bytes) : Node → Item
  | .nil => .str []
  | .value v => .str v
  | .hash h => .str h
  | .short k c =>
    let ci := match c with
      | .short _ _ => ref H (item H c)
      | .full _ => ref H (item H c)
      | _ => item H c
    .list (.cons (.str (hexToCompact k)) (.cons ci .nil))
  | .full cs =>
    .list (Items.ofList (((List.range 16).map fun i =>
      match cs i with
      | .short _ _ => ref H (item H (cs i))
      | .full _ => ref H (item H (cs i))
      | _ => item H (cs i)) ++ [rawItem (cs 16)]))

/-- `Trie.Hash`: the root is always hashed (`force = true`); the empty trie has the constant
root.  (A value node as root makes the Go code panic; no reachable trie has one.) -/
def rootHash (H : Bytes → Bytes) : Node → Bytes
  | .nil => emptyRoot
  | .hash h => h
  | n => H (enc (item H n))

/-! ## proofs (`proof.go`) -/

/-- the node list collected by the first loop of `Trie.Prove`; `none` = panic / unresolved -/
def provePath : Node → Key → Option (List Node)
  | .nil, _ => some []
  | .value _, k => if k = [] then some [] else none
  | .hash _, k => if k = [] then some [] else none
  | .short sk c, k =>
    if k = [] then some [] else
    if sk.isPrefixOf k then (provePath c (k.drop sk.length)).map (Node.short sk c :: ·)
    else some [Node.short sk c]
  | .full cs, k =>
    match k with
    | [] => some []
    | x :: k' => if x > 16 then none else (provePath (cs x) k').map (Node.full cs :: ·)

/-- second loop of `Prove` with `fromLevel = 0`: a node becomes a proof element when its
encoding is hashed (≥ 32 bytes) or it is the root -/
def proofBlobs (H : Bytes → Bytes) : List Node → Bool → List Bytes
  | [], _ => []
  | n :: ns, first =>
    let e := enc (item H n)
    if e.length ≥ 32 ∨ first then e :: proofBlobs H ns false else proofBlobs H ns false

def prove (H : Bytes → Bytes) (t : Node) (k : Key) : Option (List Bytes) :=
  (provePath t k).map fun p => proofBlobs H p true

/-! ### decoding (`node.go`) -/

/-- `rlp.SplitString` -/
def splitString (b : Bytes) : Option (Bytes × Bytes) :=
  match rawSplit b with
  | some (k, c, r) => if k = 2 then none else some (c, r)
  | none => none

/-- `rlp.SplitList` -/
def splitList (b : Bytes) : Option (Bytes × Bytes) :=
  match rawSplit b with
  | some (k, c, r) => if k = 2 then some (c, r) else none
  | none => none

def csOfList (l : List Node) : Nat → Node := fun i => l.getD i .nil

mutual
/-- `decodeNodeUnsafe`; the fuel bounds the nesting of embedded nodes and the 16-step child loop
(`2 * buf.length` suffices, proved in `KV/Proofs/TrieProofDec.lean`: an embedded node is decoded
from the payload of its parent) -/
def decodeNode : Nat → Bytes → Option Node
  | 0, _ => none
  | fuel + 1, buf =>
    if buf = [] then none else
    match splitList buf with
    | none => none
    | some (elems, _) =>
      match countValues (elems.length + 1) elems with
      | some 2 =>
        -- decodeShort
        match splitString elems with
        | none => none
        | some (kbuf, rest) =>
          let key := compactToHex kbuf
          if hasTerm key then
            match splitString rest with
            | none => none
            | some (val, _) => some (.short key (.value val))
          else
            match decodeRef fuel rest with
            | none => none
            | some (r, _) => some (.short key r)
      | some 17 =>
        match decodeRefs fuel 16 elems with
        | none => none
        | some (cl, rest) =>
          match splitString rest with
          | none => none
          | some (val, _) =>
            some (.full (csOfList (cl ++ [if val.length > 0 then Node.value val else Node.nil])))
      | _ => none
/-- `decodeRef` -/
def decodeRef : Nat → Bytes → Option (Node × Bytes)
  | 0, _ => none
  | fuel + 1, buf =>
    match rawSplit buf with
    | none => none
    | some (kind, val, rest) =>
      if kind = 2 then
        if buf.length - rest.length > 32 then none else
        match decodeNode fuel buf with
        | none => none
        | some n => some (n, rest)
      else if kind = 1 ∧ val.length = 0 then some (.nil, rest)
      else if kind = 1 ∧ val.length = 32 then some (.hash val, rest)
      else none
/-- the loop over the first 16 children in `decodeFull` -/
def decodeRefs : Nat → Nat → Bytes → Option (List Node × Bytes)
  | 0, _, _ => none
  | _ + 1, 0, buf => some ([], buf)
  | fuel + 1, n + 1, buf =>
    match decodeRef fuel buf with
    | none => none
    | some (c, rest) =>
      match decodeRefs fuel n rest with
      | none => none
      | some (cl, rest') => some (c :: cl, rest')
end

/-- `get(tn, key, skipResolved = true)` of `proof.go`: walk through resolved (embedded) nodes
until a hash node, a value node or nil.  `none` = panic. -/
def pget : Node → Key → Option (Key × Node)
  | .short sk c, key => if sk.isPrefixOf key then pget c (key.drop sk.length) else some ([], .nil)
  | .full _, [] => none
  | .full cs, x :: k => if x > 16 then none else pget (cs x) k
  | .hash h, key => some (key, .hash h)
  | .nil, key => some (key, .nil)
  | .value v, _ => some ([], .value v)

/-- result of `VerifyProof` -/
inductive VRes where
  | err : VRes
  | absent : VRes
  | val (v : Bytes) : VRes

/-- the proof database as a receiver builds it: node blobs keyed by their hash (a later blob with
the same hash overwrites an earlier one) -/
def lookup (H : Bytes → Bytes) (proof : List Bytes) (h : Bytes) : Option Bytes :=
  proof.reverse.find? (fun b => H b == h)

/-- the loop of `VerifyProof`; the Go loop is unbounded, the fuel (number of blobs + 1) is only
exceeded when a blob is reached twice, i.e. on a hash cycle; running out of fuel is an error -/
def verifyLoop (H : Bytes → Bytes) (proof : List Bytes) : Nat → Bytes → Key → VRes
  | 0, _, _ => .err
  | fuel + 1, want, key =>
    match lookup H proof want with
    | none => .err
    | some buf =>
      match decodeNode (2 * buf.length + 2) buf with
      | none => .err
      | some n =>
        match pget n key with
        | none => .err
        | some (_, .nil) => .absent
        | some (keyrest, .hash h) => verifyLoop H proof fuel h keyrest
        | some (_, .value v) => .val v
        | some _ => .err

/-- `VerifyProof(rootHash, key, proofDb)` with `proofDb = {H blob ↦ blob}`; `key` in hex form -/
def verifyProof (H : Bytes → Bytes) (root : Bytes) (key : Key) (proof : List Bytes) : VRes :=
  verifyLoop H proof (proof.length + 1) root key

end KV.Trie
