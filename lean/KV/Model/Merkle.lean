import KV.Base.Hex
/-! Model of `lib/merkle` (simple_tree.go, simple_proof.go, hash.go): the RFC-6962 style Merkle tree
used for part sets, commits and evidence lists. Everything is parametrised by the hash function
`H : Bytes → Bytes` (`merkle.Sum` = SHA-256 in the code). Core only.

Conventions: Go's `nil` result of `SimpleHashFromByteSlices` (no items) is the empty byte string;
Go's `nil` result of `computeHashFromAunts` (malformed proof) is `none` (the code distinguishes
`nil` from a hash by `== nil`; `Sum` never returns nil). -/
namespace KV.Merkle

variable (H : Bytes → Bytes)

/-- hash.go `leafHash`: `Sum(0x00 || leaf)` -/
def leafHash (x : Bytes) : Bytes := H (0x00 :: x)

/-- hash.go `innerHash`: `Sum(0x01 || left || right)` -/
def innerHash (l r : Bytes) : Bytes := H (0x01 :: (l ++ r))

/-- simple_tree.go `getSplitPoint` for `length ≥ 1` (the code panics for `length < 1`):
`k := 1 << (bits.Len(length) - 1); if k == length { k >>= 1 }`, i.e. the largest power of two
strictly smaller than `length` (0 for `length = 1`). -/
def splitPoint (n : Nat) : Nat :=
  let k := 2 ^ (Nat.log2 n)
  if k = n then k / 2 else k

/-- `SimpleHashFromByteSlices` with recursion fuel (`fuel ≥ items.length` suffices) -/
def rootAux : Nat → List Bytes → Bytes
  | 0, _ => []
  | fuel + 1, items =>
    match items with
    | [] => []
    | [x] => leafHash H x
    | _ =>
      let k := splitPoint items.length
      innerHash H (rootAux fuel (items.take k)) (rootAux fuel (items.drop k))

/-- simple_tree.go `SimpleHashFromByteSlices` (nil = `[]` for no items) -/
def root (items : List Bytes) : Bytes := rootAux H items.length items

/-- the aunts of every leaf (`trailsFromByteSlices` + `FlattenAunts`): from the leaf's sibling up
to the root's child -/
def auntsAux : Nat → List Bytes → List (List Bytes)
  | 0, _ => []
  | fuel + 1, items =>
    match items with
    | [] => []
    | [_] => [[]]
    | _ =>
      let k := splitPoint items.length
      let l := items.take k
      let r := items.drop k
      (auntsAux fuel l).map (· ++ [rootAux H fuel r]) ++ (auntsAux fuel r).map (· ++ [rootAux H fuel l])

def aunts (items : List Bytes) : List (List Bytes) := auntsAux H items.length items

/-- simple_proof.go `SimpleProof` -/
structure Proof where
  total : Nat
  index : Nat
  leafHash : Bytes
  aunts : List Bytes
deriving DecidableEq, Repr

def mkProofs (total : Nat) : Nat → List Bytes → List (List Bytes) → List Proof
  | i, x :: xs, a :: as => ⟨total, i, x, a⟩ :: mkProofs total (i + 1) xs as
  | _, _, _ => []

/-- simple_proof.go `SimpleProofsFromByteSlices` (second result); `proofs[i]` proves `items[i]` -/
def proofs (items : List Bytes) : List Proof :=
  mkProofs items.length 0 (items.map (leafHash H)) (aunts H items)

/-- `computeHashFromAunts` on the *reversed* aunt list (the code consumes the aunts from the end):
structural recursion on that list. `none` = the code's `nil`. -/
def computeRev (leaf : Bytes) : List Bytes → Nat → Nat → Option Bytes
  | [], index, total =>
    if index ≥ total ∨ total = 0 then none
    else if total = 1 then some leaf
    else none                                  -- `len(innerHashes) == 0` in the default case
  | last :: init, index, total =>
    if index ≥ total ∨ total = 0 then none
    else if total = 1 then none                -- `len(innerHashes) != 0` in case 1
    else
      let numLeft := splitPoint total
      if index < numLeft then
        match computeRev leaf init index numLeft with
        | none => none
        | some l => some (innerHash H l last)
      else
        match computeRev leaf init (index - numLeft) (total - numLeft) with
        | none => none
        | some r => some (innerHash H last r)

/-- simple_proof.go `computeHashFromAunts(index, total, leafHash, innerHashes)` -/
def computeHashFromAunts (index total : Nat) (leaf : Bytes) (innerHashes : List Bytes) : Option Bytes :=
  computeRev H leaf innerHashes.reverse index total

/-- `(*SimpleProof).ComputeRootHash` -/
def Proof.computeRootHash (p : Proof) : Option Bytes :=
  computeHashFromAunts H p.index p.total p.leafHash p.aunts

inductive VerifyResult
  | ok
  | badLeafHash      -- "invalid leaf hash"
  | badRoot          -- "invalid root hash"
deriving DecidableEq, Repr

/-- `(*SimpleProof).Verify(rootHash, leaf)`. Both comparisons are `bytes.Equal`, for which a nil
computed hash equals an *empty* `rootHash` (kept: see `verify_empty_root_accepts`). The proof's own
`Index`/`Total` are NOT compared with anything here ("Check sp.Index/sp.Total manually if needed"). -/
def verify (rootHash : Bytes) (p : Proof) (leaf : Bytes) : VerifyResult :=
  if p.leafHash ≠ leafHash H leaf then .badLeafHash
  else if (p.computeRootHash H).getD [] ≠ rootHash then .badRoot
  else .ok

end KV.Merkle
