import KV.Base.Hex
/-! Model of the validation cache of `kai/state/cstate/execution.go` (`BlockExecutor.ValidateBlock`):
```go
hash := block.Hash()                       // = Keccak(protobuf(header)): a function of the header only
if _, ok := blockExec.cache[hash]; ok { return nil }
if err := validateBlock(...); err != nil { return err }
blockExec.cache[hash] = struct{}{}
return nil
```
A block is a header plus a body (transactions, last commit incl. its height/round/block id,
evidence); `valid` stands for `validateBlock` against a fixed state. Core only. -/
namespace KV.ValidateCache

structure Block (Hdr Body : Type) where
  hdr : Hdr
  body : Body

variable {Hdr Body : Type}

/-- `ValidateBlock`: returns (accepted?, new cache) -/
def validateBlock (hash : Hdr → Bytes) (valid : Block Hdr Body → Bool) (cache : List Bytes)
    (b : Block Hdr Body) : Bool × List Bytes :=
  if hash b.hdr ∈ cache then (true, cache)
  else if valid b then (true, hash b.hdr :: cache)
  else (false, cache)

end KV.ValidateCache
