/-!
# Model of `lib/common/bit_array.go` (property C18)

Core Lean only. A bit array is `(bits, elems)` exactly as the Go struct `{Bits uint; Elems []uint64}`.
Every Go slice access `s[i]` is modelled by a *checked* access: the operation returns `none` ("the Go
code panics with index/slice out of range") unless every access it makes is in bounds. A Go `*BitArray`
that may be `nil` is `Ptr = Option BitArray`. For functions returning a pointer the result type is
`Option Ptr`: outer `none` = panic, `some none` = the Go function returned `nil`.

The model follows the code of /repo *after* commit ff4c611 (F15). The code as it was before that
commit is kept as `orOld`, `subOld`, `fromProtoOld`; `KV/Props/C18.lean` proves the counterexamples.

Go `int` indices are `Int` here: `getIndex`/`setIndex` compare `i >= int(bA.Bits)` and then index with
`i/64` (truncating division) — a negative `i` passes the comparison.
-/
namespace KV.BitArr

abbrev Word := UInt64

structure BitArray where
  bits : Nat
  elems : List Word
deriving Repr, DecidableEq, Inhabited

/-- Go `*BitArray`; `none` is the nil pointer. -/
abbrev Ptr := Option BitArray

/-- number of 64-bit words for `bits` bits: `(bits+63)/64` -/
def nwords (bits : Nat) : Nat := (bits + 63) / 64

/-- Go `x << s` on uint64 for an unsigned shift count `s` (0 when `s ≥ 64`; Lean's `<<<` reduces the
count mod 64, Go does not). -/
def goShl (w : Word) (s : Nat) : Word := if 64 ≤ s then 0 else w <<< UInt64.ofNat s

/-- bit `j` of a word -/
def wbit (w : Word) (j : Nat) : Bool := w.toBitVec.getLsbD j

/-- `NewBitArray(bits int)`: nil for `bits <= 0`. -/
def new (bits : Int) : Ptr :=
  if bits ≤ 0 then none else some ⟨bits.toNat, List.replicate (nwords bits.toNat) 0⟩

/-- `Size()` -/
def size : Ptr → Nat
  | none => 0
  | some a => a.bits

/-- the slice index `i/64` of Go (truncating division): in range candidates only; `none` = negative
index = panic -/
def wordIdx (i : Int) : Option Nat :=
  if 0 ≤ i then some (i.toNat / 64) else if -64 < i then some 0 else none

/-- `uint64(1) << uint(i%64)`; for negative `i` with `i%64 ≠ 0` the count `uint(negative)` is huge and
the result 0 (the case `i%64 = 0, i<0` never reaches the mask: the index panics first). -/
def mask (i : Int) : Word := if 0 ≤ i then goShl 1 (i.toNat % 64) else 0

/-- unexported `getIndex(i int)` -/
def getIndex (a : BitArray) (i : Int) : Option Bool :=
  if (a.bits : Int) ≤ i then some false
  else match wordIdx i with
    | none => none
    | some k =>
      match a.elems[k]? with
      | none => none
      | some w => some ((w &&& mask i) != 0)

/-- exported `GetIndex` (nil receiver → false) -/
def getIndexP : Ptr → Int → Option Bool
  | none, _ => some false
  | some a, i => getIndex a i

/-- unexported `setIndex(i int, v bool) bool`; returns the updated array and the Go result -/
def setIndex (a : BitArray) (i : Int) (v : Bool) : Option (BitArray × Bool) :=
  if (a.bits : Int) ≤ i then some (a, false)
  else match wordIdx i with
    | none => none
    | some k =>
      match a.elems[k]? with
      | none => none
      | some w =>
        some (⟨a.bits, a.elems.set k (if v then w ||| mask i else w &&& ~~~ (mask i))⟩, true)

def setIndexP : Ptr → Int → Bool → Option (Ptr × Bool)
  | none, _, _ => some (none, false)
  | some a, i, v => (setIndex a i v).map fun (a', r) => (some a', r)

/-- `copy()` : `make([]uint64, len(Elems)); copy(c, Elems)` -/
def copy (a : BitArray) : BitArray := ⟨a.bits, a.elems⟩

def copyP : Ptr → Ptr
  | none => none
  | some a => some (copy a)

/-- `copyBits(bits)` : `c := make([]uint64, (bits+63)/64); copy(c, bA.Elems)` -/
def copyBits (a : BitArray) (bits : Nat) : BitArray :=
  ⟨bits, a.elems.take (nwords bits) ++ List.replicate (nwords bits - a.elems.length) 0⟩

/-- `for i := 0; i < len(c) && i < len(o); i++ { c[i] |= o[i] }` (fixed code: cannot leave either slice) -/
def orLoop : List Word → List Word → List Word
  | c :: cs, o :: os => (c ||| o) :: orLoop cs os
  | cs, [] => cs
  | [], _ => []

/-- old code: `for i := 0; i < len(c); i++ { c[i] |= o[i] }` — `o[i]` is checked -/
def orLoopOld : List Word → List Word → Option (List Word)
  | [], _ => some []
  | c :: cs, o :: os => (orLoopOld cs os).map ((c ||| o) :: ·)
  | _ :: _, [] => none

/-- `Or` -/
def or : Ptr → Ptr → Option Ptr
  | none, none => some none
  | none, some o => some (some (copy o))
  | some a, none => some (some (copy a))
  | some a, some o =>
    let c := copyBits a (max a.bits o.bits)
    some (some ⟨c.bits, orLoop c.elems o.elems⟩)

/-- `Or` as it was before ff4c611 -/
def orOld : Ptr → Ptr → Option Ptr
  | none, none => some none
  | none, some o => some (some (copy o))
  | some a, none => some (some (copy a))
  | some a, some o =>
    let c := copyBits a (max a.bits o.bits)
    (orLoopOld c.elems o.elems).map fun e => some ⟨c.bits, e⟩

/-- `for i := 0; i < len(c); i++ { c[i] &= o[i] }` — `o[i]` is checked -/
def andLoop : List Word → List Word → Option (List Word)
  | [], _ => some []
  | c :: cs, o :: os => (andLoop cs os).map ((c &&& o) :: ·)
  | _ :: _, [] => none

/-- unexported `and(o)` on non-nil operands -/
def and (a o : BitArray) : Option BitArray :=
  let c := copyBits a (min a.bits o.bits)
  (andLoop c.elems o.elems).map fun e => ⟨c.bits, e⟩

/-- `And` -/
def andP : Ptr → Ptr → Option Ptr
  | some a, some o => (and a o).map some
  | _, _ => some none

/-- `Not` -/
def not (a : BitArray) : BitArray := ⟨a.bits, a.elems.map (~~~ ·)⟩

def notP : Ptr → Ptr
  | none => none
  | some a => some (not a)

/-- `for i := 0; i < len(o); i++ { c[i] &= ^o[i] }` over the words `os` of `o` — `c[i]` is checked -/
def subLoop : List Word → List Word → Option (List Word)
  | cs, [] => some cs
  | c :: cs, o :: os => (subLoop cs os).map ((c &&& ~~~ o) :: ·)
  | [], _ :: _ => none

/-- old code: `c.Elems[i] &= ^c.Elems[i]` (clears the word) -/
def subLoopOld : List Word → List Word → Option (List Word)
  | cs, [] => some cs
  | c :: cs, _ :: os => (subLoopOld cs os).map ((c &&& ~~~ c) :: ·)
  | [], _ :: _ => none

/-- `for idx := i*64; idx < o.Bits; idx++ { c.setIndex(idx, c.getIndex(idx) && !o.GetIndex(idx)) }`,
`n` = number of iterations left. `&&` short-circuits: `o.GetIndex` is evaluated only if `c`'s bit is set. -/
def subBits (c o : BitArray) (idx : Nat) : Nat → Option BitArray
  | 0 => some c
  | n + 1 =>
    match getIndex c idx with
    | none => none
    | some g =>
      match (if g then (getIndex o idx).map (!·) else some false) with
      | none => none
      | some v =>
        match setIndex c idx v with
        | none => none
        | some (c', _) => subBits c' o (idx + 1) n

def subWith (loop : List Word → List Word → Option (List Word)) (a o : BitArray) : Option BitArray :=
  if o.bits < a.bits then
    let c := copy a
    match loop c.elems o.elems.dropLast with      -- i < len(o.Elems)-1
    | none => none
    | some e =>
      let c : BitArray := ⟨c.bits, e⟩
      if o.elems.length = 0 then some c            -- i := len(o.Elems)-1; if i >= 0 {…}
      else subBits c o ((o.elems.length - 1) * 64) (o.bits - (o.elems.length - 1) * 64)
  else and a (not o)

/-- `Sub` on non-nil operands -/
def sub (a o : BitArray) : Option BitArray := subWith subLoop a o
/-- `Sub` as it was before ff4c611 -/
def subOld (a o : BitArray) : Option BitArray := subWith subLoopOld a o

def subP : Ptr → Ptr → Option Ptr
  | some a, some o => (sub a o).map some
  | _, _ => some none

/-- `IsEmpty` (range loop: no index) -/
def isEmpty (a : BitArray) : Bool := a.elems.all (· == 0)

def isEmptyP : Ptr → Bool
  | none => true
  | some a => isEmpty a

/-- `IsFull`: `bA.Elems[:len(bA.Elems)-1]` and `bA.Elems[len(bA.Elems)-1]` panic on an array without
words (a non-nil 0-bit array, which only `FromProto` can produce). -/
def isFull (a : BitArray) : Option Bool :=
  match a.elems.getLast? with
  | none => none
  | some last =>
    if a.elems.dropLast.all (fun e => ~~~ e == 0) then
      let lastElemBits := (a.bits + 63) % 64 + 1
      some (((last + 1) &&& (goShl 1 lastElemBits - 1)) == 0)
    else some false

def isFullP : Ptr → Option Bool
  | none => some true
  | some a => isFull a

/-- first set bit of `w` among positions `(j + start) % n`, `j = 0..n-1`, scanning `fuel` more positions -/
def scanBits (w : Word) (n start : Nat) (j : Nat) : Nat → Option Nat
  | 0 => none
  | fuel + 1 =>
    let b := (j + start) % n
    if (w &&& goShl 1 b) != 0 then some b else scanBits w n start (j + 1) fuel

/-- `PickRandom` with the random choices as inputs: `start` for `RandIntn(len(Elems))` (reduced mod the
length) and `rb k` for the `RandIntn` drawn when word `k` is scanned (reduced mod 64 resp. the number
of bits of the last word). `none` = panic: an out-of-range `Elems[elemIdx]` or `PanicSanity("should not
happen")` (both proved unreachable in `KV/Proofs/BitArray.lean`). -/
def pickLoop (a : BitArray) (start : Nat) (rb : Nat → Nat) (i : Nat) : Nat → Option (Nat × Bool)
  | 0 => some (0, false)
  | fuel + 1 =>
    let length := a.elems.length
    let k := (i + start) % length
    match a.elems[k]? with
    | none => none
    | some w =>
      if k < length - 1 then
        if w != 0 then
          match scanBits w 64 (rb k % 64) 0 64 with
          | some b => some (64 * k + b, true)
          | none => none        -- PanicSanity("should not happen")
        else pickLoop a start rb (i + 1) fuel
      else
        let eb := if a.bits % 64 = 0 then 64 else a.bits % 64
        match scanBits w eb (rb k % eb) 0 eb with
        | some b => some (64 * k + b, true)
        | none => pickLoop a start rb (i + 1) fuel

def pickRandom (a : BitArray) (start : Nat) (rb : Nat → Nat) : Option (Nat × Bool) :=
  if a.elems.length = 0 then some (0, false)
  else pickLoop a (start % a.elems.length) rb 0 a.elems.length

def pickRandomP : Ptr → Nat → (Nat → Nat) → Option (Nat × Bool)
  | none, _, _ => some (0, false)
  | some a, s, rb => pickRandom a s rb

/-- the set of possible results of `PickRandom` (all random choices), as a decidable check: every result is
reached with a constant `rb` (only the draw for the word that hits matters) -/
def pickPossible (a : BitArray) (r : Nat × Bool) : Bool :=
  (List.range (max a.elems.length 1)).any fun s =>
    (List.range 64).any fun c => pickRandom a s (fun _ => c) == some r

/-- `Update`: `copy(bA.Elems, o.Elems)` copies `min(len, len)` words; `Bits` is not changed -/
def update (a o : BitArray) : BitArray :=
  ⟨a.bits, o.elems.take a.elems.length ++ a.elems.drop o.elems.length⟩

def updateP : Ptr → Ptr → Ptr
  | some a, some o => some (update a o)
  | a, _ => a

/-- wire form: `nil` or `(Bits int64, Elems []uint64)` -/
abbrev Wire := Option (Int × List Word)

/-- `ToProto` -/
def toProto : Ptr → Wire
  | none => none
  | some a => if a.elems.length = 0 then none else some ((a.bits : Int), a.elems)

/-- `FromProto` on a fresh `new(BitArray)` (all call sites): the fixed version with the consistency check.
Assumes `len(Elems) < 2^57` so that `words*64` and `bits+63` do not overflow int64. -/
def fromProto : Wire → BitArray
  | none => ⟨0, []⟩
  | some (bits, elems) =>
    let words : Int := elems.length
    if bits < 0 ∨ bits > words * 64 ∨ (bits + 63) / 64 ≠ words then ⟨0, []⟩
    else ⟨bits.toNat, elems⟩

/-- `FromProto` before ff4c611: `bA.Bits = uint(pb.Bits)`, `Elems` taken as they come -/
def fromProtoOld : Wire → BitArray
  | none => ⟨0, []⟩
  | some (bits, elems) => ⟨(bits % (2 ^ 64 : Int)).toNat, elems⟩

/-- `String()` reads `getIndex(i)` for every `i < Bits`; defined iff all of them are -/
def stringDefined (a : BitArray) : Bool :=
  (List.range a.bits).all fun i => (getIndex a i).isSome

/-- `Bytes()`: `bytes := make([]byte, (Bits+7)/8)`; for each word `copy(bytes[i*8:], …)`: the slice
expression panics if `i*8 > len(bytes)`. -/
def bytesDefined (a : BitArray) : Bool :=
  (List.range a.elems.length).all fun i => i * 8 ≤ (a.bits + 7) / 8

/-! ## bit-level view used by the specifications -/

/-- bit `i` as stored (including straggler bits of the last word beyond `bits`) -/
def rawBit (a : BitArray) (i : Nat) : Bool :=
  match a.elems[i / 64]? with
  | some w => wbit w (i % 64)
  | none => false

/-- bit `i` as seen through `GetIndex` -/
def bitAt (a : BitArray) (i : Nat) : Bool := decide (i < a.bits) && rawBit a i

/-- consistency of `(Bits, Elems)` -/
def WF (a : BitArray) : Prop := a.elems.length = nwords a.bits

instance (a : BitArray) : Decidable (WF a) := by unfold WF; infer_instance

/-- no straggler bits -/
def Clean (a : BitArray) : Prop := ∀ i, a.bits ≤ i → rawBit a i = false

end KV.BitArr
