import KV.Proofs.Agreement
/-! Executable checker that a recorded vote trace satisfies the hypotheses of the abstract
agreement theorem (`KV.Agree.Good`): used by the driver to validate traces recorded from real
nodes (tie for C01), and proved sound in `KV/Props/C01.lean`. Validators and blocks are `Nat`. -/
namespace KV.Agree

abbrev NEv := Ev Nat Nat
abbrev NTrace := List NEv

def polkaB (vals : List Nat) (pw : Nat → Nat) (tr : NTrace) (r : Nat) (x : Option Nat) : Bool :=
  decide (3 * power vals pw (fun v => sentB tr v ⟨.prevote, r, x⟩) > 2 * power vals pw (fun _ => true))

def commitQB (vals : List Nat) (pw : Nat → Nat) (tr : NTrace) (r : Nat) (b : Nat) : Bool :=
  decide (3 * power vals pw (fun v => sentB tr v ⟨.precommit, r, some b⟩) > 2 * power vals pw (fun _ => true))

def monoB (pre : NTrace) (e : NEv) : Bool :=
  pre.all fun e' => !(e'.sender == e.sender) || decide (e'.vote.round ≤ e.vote.round)

def onceB (pre : NTrace) (e : NEv) : Bool :=
  pre.all fun e' =>
    !(e'.sender == e.sender && e'.vote.ty == e.vote.ty && e'.vote.round == e.vote.round) ||
      e'.vote.val == e.vote.val

def justB (vals : List Nat) (pw : Nat → Nat) (pre : NTrace) (e : NEv) : Bool :=
  match e.vote.ty, e.vote.val with
  | .precommit, some b => polkaB vals pw pre e.vote.round (some b)
  | _, _ => true

/-- is there a prevote event in `pre` witnessing a polka for a value `≠ some b` at a round in `(r, r']`? -/
def unlockB (vals : List Nat) (pw : Nat → Nat) (pre : NTrace) (r r' b : Nat) : Bool :=
  pre.any fun w =>
    w.vote.ty == .prevote && decide (r < w.vote.round) && decide (w.vote.round ≤ r') &&
      !(w.vote.val == some b) && polkaB vals pw pre w.vote.round w.vote.val

def lockB (vals : List Nat) (pw : Nat → Nat) (pre : NTrace) (e : NEv) : Bool :=
  !(e.vote.ty == .prevote) ||
  pre.all fun e' =>
    match e'.vote.val with
    | some b =>
      !(e'.sender == e.sender && e'.vote.ty == .precommit && decide (e'.vote.round < e.vote.round)
          && !(e.vote.val == some b)) ||
        unlockB vals pw pre e'.vote.round e.vote.round b
    | none => true

def oblB (vals : List Nat) (pw : Nat → Nat) (pre : NTrace) (e : NEv) : Bool :=
  monoB pre e && onceB pre e && justB vals pw pre e && lockB vals pw pre e

/-- check every event of a non-faulty sender against the prefix before it -/
def goodFrom (vals : List Nat) (pw : Nat → Nat) (F : Nat → Bool) : NTrace → NTrace → Bool
  | _, [] => true
  | pre, e :: rest => (F e.sender || oblB vals pw pre e) && goodFrom vals pw F (pre ++ [e]) rest

def goodB (vals : List Nat) (pw : Nat → Nat) (F : Nat → Bool) (tr : NTrace) : Bool :=
  goodFrom vals pw F [] tr

/-- index of the first event violating an obligation, with the obligation's name (diagnostics) -/
def firstBad (vals : List Nat) (pw : Nat → Nat) (F : Nat → Bool) : NTrace → NTrace → Option (Nat × String)
  | _, [] => none
  | pre, e :: rest =>
    if F e.sender then firstBad vals pw F (pre ++ [e]) rest
    else if !monoB pre e then some (pre.length, "O0-round-decreased")
    else if !onceB pre e then some (pre.length, "O1-equivocation")
    else if !justB vals pw pre e then some (pre.length, "O2-precommit-without-polka")
    else if !lockB vals pw pre e then some (pre.length, "O3-lock-rule")
    else firstBad vals pw F (pre ++ [e]) rest

/-- rounds at which some block has a commit quorum in the trace -/
def decisionOK (vals : List Nat) (pw : Nat → Nat) (tr : NTrace) (b : Nat) : Bool :=
  tr.any fun w => w.vote.ty == .precommit && w.vote.val == some b && commitQB vals pw tr w.vote.round b

end KV.Agree
