/-! Model of `consensus/ticker.go timeoutRoutine`: which scheduled timeout the ticker holds.
A tick is (height, round, step, id); `id` only identifies the schedule call. Core only. -/
namespace KV.Ticker

structure Tick where
  height : Nat
  round : Nat
  step : Nat
  deriving DecidableEq, Repr

/-- the comparison of `timeoutRoutine`: is the new tick ignored given the held one? -/
def ignored (held new : Tick) : Bool :=
  if new.height < held.height then true
  else if new.height = held.height then
    if new.round < held.round then true
    else if new.round = held.round then
      (decide (held.step > 0) && decide (new.step ≤ held.step))
    else false
  else false

/-- `EmptyTimeoutInfo()` -/
def empty : Tick := ⟨0, 0, 0⟩

/-- one `ScheduleTimeout` as processed by the routine -/
def schedule (held new : Tick) : Tick := if ignored held new then held else new

def run (ticks : List Tick) : Tick := ticks.foldl schedule empty

/-- lexicographic order on (height, round, step) -/
def le (a b : Tick) : Prop :=
  a.height < b.height ∨ (a.height = b.height ∧ (a.round < b.round ∨ (a.round = b.round ∧ a.step ≤ b.step)))

def lt (a b : Tick) : Prop :=
  a.height < b.height ∨ (a.height = b.height ∧ (a.round < b.round ∨ (a.round = b.round ∧ a.step < b.step)))

end KV.Ticker
