import KV.Base.Hex
/-!
# KVM single-frame interpreter (model of `/repo/kvm`, property C10)

Transcribes, branch by branch, `Interpreter.Run` (`interpreter.go`), the per-opcode functions of
`instructions.go`, the jump tables of `instruction_set.go` (`opInfo`, written by hand here and meant
to be compared with the regenerated table by a bridge theorem), `stack.go` (`minStack/maxStack`),
`gas.go` (`memoryGasCost`, `gasSha3`, `memoryCopierGas`, `makeGasLog`, `gasSStore`, `gasExp`),
`memory.go` / `utils.go` (`calcMemSize64`, `toWordSize`, `getData`), `contract.go`
(`validJumpdest`, `codeBitmap`) and the snapshot/revert wrapper of `KVM.Call` (`kvm.go`).

* Words are `Nat` below `2^256`; every operation reduces modulo `2^256`.
* One call frame.  Opcodes whose semantics need other accounts or nested frames (`BALANCE`,
  `EXTCODE*`, `RETURNDATA*`, `BLOCKHASH`, `SELFBALANCE`, `CALL*`, `CREATE*`, `SELFDESTRUCT`) end the
  run with `Status.unsupported` as soon as they are fetched.
* Gas is a `Nat` compared before each subtraction (`Contract.UseGas`), including the pre-Galaxias
  behaviour of charging the constant gas a second time together with the dynamic gas
  (`cost += dynamicCost; UseGas(cost)` in `Run`).
* The hash function of `SHA3` is a parameter of the environment.
-/
namespace KV.Evm

abbrev Word := Nat
/-- 2^256 -/
abbrev W : Nat := 2 ^ 256
/-- 2^64 -/
abbrev U64 : Nat := 2 ^ 64

/-! ## word arithmetic (uint256 library semantics) -/

def wadd (a b : Word) : Word := (a + b) % W
def wmul (a b : Word) : Word := (a * b) % W
def wsub (a b : Word) : Word := (a + (W - b % W)) % W
def wdiv (a b : Word) : Word := if b = 0 then 0 else a / b
def wmod (a b : Word) : Word := if b = 0 then 0 else a % b
/-- sign bit (bit 255) set -/
def isNeg (a : Word) : Bool := decide (2 ^ 255 ≤ a)
/-- two's complement negation -/
def wneg (a : Word) : Word := (W - a % W) % W
def wabs (a : Word) : Word := if isNeg a then wneg a else a
/-- `uint256.SDiv`: quotient of the absolute values, negated when the signs differ; 0 for divisor 0 -/
def sdiv (a b : Word) : Word :=
  if b = 0 then 0 else
    let q := wabs a / wabs b
    if isNeg a != isNeg b then wneg q else q
/-- `uint256.SMod`: remainder of the absolute values with the sign of the dividend -/
def smod (a b : Word) : Word :=
  if b = 0 then 0 else
    let r := wabs a % wabs b
    if isNeg a then wneg r else r
def addmod (a b m : Word) : Word := if m = 0 then 0 else (a + b) % m
def mulmod (a b m : Word) : Word := if m = 0 then 0 else (a * b) % m
/-- square-and-multiply, `fuel` = number of exponent bits still to look at -/
def powMod (b e : Nat) : Nat → Nat
  | 0 => 1
  | fuel + 1 =>
    if e = 0 then 1 else
      let h := powMod ((b * b) % W) (e / 2) fuel
      if e % 2 = 1 then (b * h) % W else h
def wexp (b e : Word) : Word := powMod b e 256 % W
/-- `ExtendSign(x, byteNum)` -/
def signextend (b x : Word) : Word :=
  if b > 31 then x else
    let bits := 8 * (b + 1)
    let low := x % 2 ^ bits
    if 2 ^ (bits - 1) ≤ low then low + (W - 2 ^ bits) else low
def wlt (a b : Word) : Word := if a < b then 1 else 0
def wgt (a b : Word) : Word := if a > b then 1 else 0
def sltB (a b : Word) : Bool := if isNeg a = isNeg b then decide (a < b) else isNeg a
def wslt (a b : Word) : Word := if sltB a b then 1 else 0
def wsgt (a b : Word) : Word := if sltB b a then 1 else 0
def weq (a b : Word) : Word := if a = b then 1 else 0
def wiszero (a : Word) : Word := if a = 0 then 1 else 0
def wand (a b : Word) : Word := a &&& b
def wor (a b : Word) : Word := a ||| b
def wxor (a b : Word) : Word := a ^^^ b
def wnot (a : Word) : Word := W - 1 - a % W
/-- `val.Byte(th)`: byte number `th` counted from the most significant one -/
def wbyte (th val : Word) : Word := if th < 32 then (val / 2 ^ (8 * (31 - th))) % 256 else 0
def wshl (s v : Word) : Word := if s < 256 then (v * 2 ^ s) % W else 0
def wshr (s v : Word) : Word := if s < 256 then v / 2 ^ s else 0
/-- `opSAR`: shifts above 256 are answered by the sign, the rest by `SRsh` -/
def wsar (s v : Word) : Word :=
  if isNeg v then (if s ≥ 256 then W - 1 else W - 1 - (W - 1 - v % W) / 2 ^ s)
  else (if s ≥ 256 then 0 else v / 2 ^ s)

/-- two's complement reading of a word -/
def toInt (x : Word) : Int := if x < 2 ^ 255 then (x : Int) else (x : Int) - (W : Int)
def ofInt (i : Int) : Word := (i % (W : Int)).toNat

/-! ## bytes -/

def beVal (bs : Bytes) : Nat := bs.foldl (fun a b => a * 256 + b.toNat) 0
/-- big-endian, exactly `n` bytes (value taken modulo `256^n`) -/
def beFixed : Nat → Nat → Bytes
  | 0, _ => []
  | n + 1, v => beFixed n (v / 256) ++ [UInt8.ofNat (v % 256)]
def word32 (v : Word) : Bytes := beFixed 32 v
def zeros (n : Nat) : Bytes := List.replicate n 0
def rightPad (bs : Bytes) (n : Nat) : Bytes := bs ++ zeros (n - bs.length)
/-- `getData(data, start, size)` (`utils.go`) -/
def getData (data : Bytes) (start size : Nat) : Bytes :=
  rightPad ((data.drop start).take size) size
/-- significant bytes of a word: `(BitLen + 7) / 8` -/
def byteLen : Nat → Nat
  | 0 => 0
  | n + 1 => byteLen ((n + 1) / 256) + 1
decreasing_by omega

/-! ## memory -/

def memResize (mem : Bytes) (size : Nat) : Bytes :=
  if mem.length < size then mem ++ zeros (size - mem.length) else mem
/-- `Memory.GetPtr/GetCopy(off, size)`: empty for size 0 -/
def memRead (mem : Bytes) (off size : Nat) : Bytes :=
  if size = 0 then [] else rightPad ((mem.drop off).take size) size
/-- `Memory.Set(off, size, val)` with `size = val.length`; no-op for the empty value -/
def memWrite (mem : Bytes) (off : Nat) (val : Bytes) : Bytes :=
  if val.isEmpty then mem else mem.take off ++ val ++ mem.drop (off + val.length)

/-- `toWordSize` (`utils.go`) -/
def toWordSize (size : Nat) : Nat :=
  if size > U64 - 1 - 31 then (U64 - 1) / 32 + 1 else (size + 31) / 32

/-- `calcMemSize64WithUint`; `none` = overflow -/
def calcMemSizeU (off : Word) (len : Nat) : Option Nat :=
  if len = 0 then some 0
  else if off ≥ U64 then none
  else
    let v := (off + len) % U64
    if v < off then none else some v
/-- `calcMemSize64` -/
def calcMemSize (off len : Word) : Option Nat :=
  if len ≥ U64 then none else calcMemSizeU off len

/-- `memoryGasCost(mem, newMemSize)`: `(fee, new lastGasCost)`; `none` = `ErrGasUintOverflow` -/
def memoryGasCost (memLen lastCost newMemSize : Nat) : Option (Nat × Nat) :=
  if newMemSize = 0 then some (0, lastCost)
  else if newMemSize > 0x1FFFFFFFE0 then none
  else
    let words := toWordSize newMemSize
    if words * 32 > memLen then
      let total := words * 3 + words * words / 512
      some (total - lastCost, total)
    else some (0, lastCost)

def safeAdd (a b : Nat) : Option Nat := if a + b ≥ U64 then none else some (a + b)
def safeMul (a b : Nat) : Option Nat := if a * b ≥ U64 then none else some (a * b)

/-! ## jump destination analysis (`contract.go`) -/

/-- number of immediate bytes of an opcode (`PUSH1..PUSH32`) -/
def pushLen (b : UInt8) : Nat := if 0x60 ≤ b.toNat ∧ b.toNat ≤ 0x7f then b.toNat - 0x5f else 0

/-- `codeBitmap`: for every position, `true` = push data.  `skip` = data bytes still to mark. -/
def dataMask : Bytes → Nat → List Bool
  | [], _ => []
  | b :: rest, 0 => false :: dataMask rest (pushLen b)
  | _ :: rest, k + 1 => true :: dataMask rest k

/-- `Contract.validJumpdest(dest)` -/
def validJumpdest (code : Bytes) (dest : Word) : Bool :=
  if dest ≥ U64 ∨ dest ≥ code.length then false
  else if code[dest]? != some 0x5b then false
  else (dataMask code 0)[dest]? == some false

/-! ## the jump table -/

inductive OpKind where
  | stop
  | un (f : Word → Word)
  | bin (f : Word → Word → Word)
  | tern (f : Word → Word → Word → Word)
  | exp
  | sha3
  | env (sel : Nat)       -- 0-ary push of an environment / machine value
  | calldataload
  | calldatacopy
  | codecopy
  | pop
  | mload
  | mstore
  | mstore8
  | sload
  | sstore
  | jump
  | jumpi
  | jumpdest
  | push (n : Nat)
  | dup (n : Nat)
  | swap (n : Nat)
  | log (n : Nat)
  | ret
  | revert
  | unsupported

structure OpInfo where
  kind : OpKind
  pops : Nat
  pushes : Nat
  gas : Nat            -- constantGas
  minStack : Nat
  maxStack : Nat
  dyn : Bool := false  -- has a dynamicGas function
  memsz : Bool := false -- has a memorySize function
  halts : Bool := false
  jumps : Bool := false
  writes : Bool := false
  reverts : Bool := false
  returns : Bool := false

def stackLimit : Nat := 1024
/-- `minStack(pops, push)` / `maxStack(pop, push)` of `stack.go` -/
def minStackF (pops _push : Nat) : Nat := pops
def maxStackF (pop push : Nat) : Nat := stackLimit + pop - push

/-- table entry built the way `instruction_set.go` builds it -/
def mk (kind : OpKind) (pops pushes gas : Nat) : OpInfo :=
  { kind, pops, pushes, gas, minStack := minStackF pops pushes, maxStack := maxStackF pops pushes }

-- gas tiers (`configs/params.go`)
def gQuick := 2
def gFastest := 3
def gFast := 5
def gMid := 8
def gSlow := 10
def gExt := 20

/-- `newV1InstructionSet` (and `newV2InstructionSet` = v1 + CHAINID when `post`) -/
def opInfoN (post : Bool) (n : Nat) : Option OpInfo :=
  if 0x60 ≤ n ∧ n ≤ 0x7f then some (mk (.push (n - 0x5f)) 0 1 gFastest)
  else if 0x80 ≤ n ∧ n ≤ 0x8f then some (mk (.dup (n - 0x7f)) (n - 0x7f) (n - 0x7f + 1) gFastest)
  else if 0x90 ≤ n ∧ n ≤ 0x9f then some (mk (.swap (n - 0x8f)) (n - 0x8f + 1) (n - 0x8f + 1) gFastest)
  else if 0xa0 ≤ n ∧ n ≤ 0xa4 then
    some { mk (.log (n - 0xa0)) (n - 0xa0 + 2) 0 0 with dyn := true, memsz := true, writes := true }
  else match n with
  | 0x00 => some { mk .stop 0 0 0 with halts := true }
  | 0x01 => some (mk (.bin wadd) 2 1 gFastest)
  | 0x02 => some (mk (.bin wmul) 2 1 gFast)
  | 0x03 => some (mk (.bin wsub) 2 1 gFastest)
  | 0x04 => some (mk (.bin wdiv) 2 1 gFast)
  | 0x05 => some (mk (.bin sdiv) 2 1 gFast)
  | 0x06 => some (mk (.bin wmod) 2 1 gFast)
  | 0x07 => some (mk (.bin smod) 2 1 gFast)
  | 0x08 => some (mk (.tern addmod) 3 1 gMid)
  | 0x09 => some (mk (.tern mulmod) 3 1 gMid)
  | 0x0a => some { mk .exp 2 1 0 with dyn := true }
  | 0x0b => some (mk (.bin signextend) 2 1 gFast)
  | 0x10 => some (mk (.bin wlt) 2 1 gFastest)
  | 0x11 => some (mk (.bin wgt) 2 1 gFastest)
  | 0x12 => some (mk (.bin wslt) 2 1 gFastest)
  | 0x13 => some (mk (.bin wsgt) 2 1 gFastest)
  | 0x14 => some (mk (.bin weq) 2 1 gFastest)
  | 0x15 => some (mk (.un wiszero) 1 1 gFastest)
  | 0x16 => some (mk (.bin wand) 2 1 gFastest)
  | 0x17 => some (mk (.bin wor) 2 1 gFastest)
  | 0x18 => some (mk (.bin wxor) 2 1 gFastest)
  | 0x19 => some (mk (.un wnot) 1 1 gFastest)
  | 0x1a => some (mk (.bin wbyte) 2 1 gFastest)
  | 0x1b => some (mk (.bin wshl) 2 1 gFastest)
  | 0x1c => some (mk (.bin wshr) 2 1 gFastest)
  | 0x1d => some (mk (.bin wsar) 2 1 gFastest)
  | 0x20 => some { mk .sha3 2 1 30 with dyn := true, memsz := true }
  | 0x30 => some (mk (.env 0x30) 0 1 gQuick)                 -- ADDRESS
  | 0x31 => some (mk .unsupported 1 1 400)                   -- BALANCE
  | 0x32 => some (mk (.env 0x32) 0 1 gQuick)                 -- ORIGIN
  | 0x33 => some (mk (.env 0x33) 0 1 gQuick)                 -- CALLER
  | 0x34 => some (mk (.env 0x34) 0 1 gQuick)                 -- CALLVALUE
  | 0x35 => some (mk .calldataload 1 1 gFastest)
  | 0x36 => some (mk (.env 0x36) 0 1 gQuick)                 -- CALLDATASIZE
  | 0x37 => some { mk .calldatacopy 3 0 gFastest with dyn := true, memsz := true }
  | 0x38 => some (mk (.env 0x38) 0 1 gQuick)                 -- CODESIZE
  | 0x39 => some { mk .codecopy 3 0 gFastest with dyn := true, memsz := true }
  | 0x3a => some (mk (.env 0x3a) 0 1 gQuick)                 -- GASPRICE
  | 0x3b => some (mk .unsupported 1 1 700)                   -- EXTCODESIZE
  | 0x3c => some { mk .unsupported 4 0 700 with dyn := true, memsz := true } -- EXTCODECOPY
  | 0x3d => some (mk .unsupported 0 1 gQuick)                -- RETURNDATASIZE
  | 0x3e => some { mk .unsupported 3 0 gFastest with dyn := true, memsz := true } -- RETURNDATACOPY
  | 0x3f => some (mk .unsupported 1 1 400)                   -- EXTCODEHASH
  | 0x40 => some (mk .unsupported 1 1 gExt)                  -- BLOCKHASH
  | 0x41 => some (mk (.env 0x41) 0 1 gQuick)                 -- COINBASE
  | 0x42 => some (mk (.env 0x42) 0 1 gQuick)                 -- TIMESTAMP
  | 0x43 => some (mk (.env 0x43) 0 1 gQuick)                 -- NUMBER
  | 0x44 => some (mk (.env 0x44) 0 1 gQuick)                 -- GASLIMIT (KVM numbering)
  | 0x46 => if post then some (mk (.env 0x46) 0 1 gQuick) else none -- CHAINID (enable1344)
  | 0x47 => some (mk .unsupported 0 1 gFast)                 -- SELFBALANCE
  | 0x50 => some (mk .pop 1 0 gQuick)
  | 0x51 => some { mk .mload 1 1 gFastest with dyn := true, memsz := true }
  | 0x52 => some { mk .mstore 2 0 gFastest with dyn := true, memsz := true }
  | 0x53 => some { mk .mstore8 2 0 gFastest with dyn := true, memsz := true }
  | 0x54 => some (mk .sload 1 1 50)
  | 0x55 => some { mk .sstore 2 0 0 with dyn := true, writes := true }
  | 0x56 => some { mk .jump 1 0 gMid with jumps := true }
  | 0x57 => some { mk .jumpi 2 0 gSlow with jumps := true }
  | 0x58 => some (mk (.env 0x58) 0 1 gQuick)                 -- PC
  | 0x59 => some (mk (.env 0x59) 0 1 gQuick)                 -- MSIZE
  | 0x5a => some (mk (.env 0x5a) 0 1 gQuick)                 -- GAS
  | 0x5b => some (mk .jumpdest 0 0 1)
  | 0xf0 => some { mk .unsupported 3 1 32000 with dyn := true, memsz := true, writes := true, returns := true }
  | 0xf1 => some { mk .unsupported 7 1 40 with dyn := true, memsz := true, returns := true }
  | 0xf2 => some { mk .unsupported 7 1 40 with dyn := true, memsz := true, returns := true }
  | 0xf3 => some { mk .ret 2 0 0 with dyn := true, memsz := true, halts := true }
  | 0xf4 => some { mk .unsupported 6 1 40 with dyn := true, memsz := true, returns := true }
  | 0xf5 => some { mk .unsupported 4 1 32000 with dyn := true, memsz := true, writes := true, returns := true }
  | 0xfa => some { mk .unsupported 6 1 700 with dyn := true, memsz := true, returns := true }
  | 0xfd => some { mk .revert 2 0 0 with dyn := true, memsz := true, reverts := true, returns := true }
  | 0xff => some { mk .unsupported 1 0 0 with dyn := true, halts := true, writes := true }
  | _ => none

/-- the jump table entry of an opcode; `none` = undefined opcode (`operation == nil`) -/
def opInfo (post : Bool) (op : UInt8) : Option OpInfo := opInfoN post op.toNat

/-- stack arities implied by the semantics of a kind (what `exec` really pops / pushes) -/
def OpKind.pops : OpKind → Nat
  | .stop => 0 | .un _ => 1 | .bin _ => 2 | .tern _ => 3 | .exp => 2 | .sha3 => 2 | .env _ => 0
  | .calldataload => 1 | .calldatacopy => 3 | .codecopy => 3 | .pop => 1 | .mload => 1
  | .mstore => 2 | .mstore8 => 2 | .sload => 1 | .sstore => 2 | .jump => 1 | .jumpi => 2
  | .jumpdest => 0 | .push _ => 0 | .dup n => n | .swap n => n + 1 | .log n => n + 2
  | .ret => 2 | .revert => 2 | .unsupported => 0
def OpKind.pushes : OpKind → Nat
  | .stop => 0 | .un _ => 1 | .bin _ => 1 | .tern _ => 1 | .exp => 1 | .sha3 => 1 | .env _ => 1
  | .calldataload => 1 | .calldatacopy => 0 | .codecopy => 0 | .pop => 0 | .mload => 1
  | .mstore => 0 | .mstore8 => 0 | .sload => 1 | .sstore => 0 | .jump => 0 | .jumpi => 0
  | .jumpdest => 0 | .push _ => 1 | .dup n => n + 1 | .swap n => n + 1 | .log _ => 0
  | .ret => 0 | .revert => 0 | .unsupported => 0
/-- kinds whose execution changes storage or logs -/
def OpKind.modifies : OpKind → Bool
  | .sstore => true | .log _ => true | _ => false
def OpKind.isUnsupported : OpKind → Bool
  | .unsupported => true | _ => false

/-! ## machine -/

structure Env where
  code : Bytes
  input : Bytes
  hash : Bytes → Bytes
  post : Bool        -- Galaxias rules (v2 instruction set, dynamic gas charged alone)
  readOnly : Bool
  address : Word
  caller : Word
  origin : Word
  callvalue : Word
  gasprice : Word
  coinbase : Word
  timestamp : Word
  number : Word
  gaslimit : Word
  chainid : Word

abbrev Storage := List (Word × Word)
abbrev Log := List Word × Bytes

structure State where
  pc : Nat
  stack : List Word      -- head = top of stack
  mem : Bytes
  memCost : Nat          -- Memory.lastGasCost
  gas : Nat
  storage : Storage
  logs : List Log        -- newest first

def sload (st : Storage) (k : Word) : Word := ((st.find? (fun p => p.1 == k)).map (·.2)).getD 0
def sstore (st : Storage) (k v : Word) : Storage := (k, v) :: st.filter (fun p => p.1 != k)

inductive ErrClass where
  | oog | gasovf | underflow | overflow | invalid | jump | wprot | fuel
  deriving DecidableEq, Repr

inductive Status where
  | ok | revert | err (c : ErrClass) | unsupported
  deriving DecidableEq, Repr

/-- what a frame ends with (before the snapshot/revert logic of `Call`) -/
structure Halt where
  status : Status
  ret : Bytes
  final : State

inductive Outcome where
  | next (s : State)
  | halt (h : Halt)

def getOp (code : Bytes) (pc : Nat) : UInt8 := code[pc]?.getD 0

def envValue (env : Env) (s : State) (sel : Nat) : Word :=
  match sel with
  | 0x30 => env.address
  | 0x32 => env.origin
  | 0x33 => env.caller
  | 0x34 => env.callvalue
  | 0x36 => env.input.length
  | 0x38 => env.code.length
  | 0x3a => env.gasprice
  | 0x41 => env.coinbase
  | 0x42 => env.timestamp
  | 0x43 => env.number
  | 0x44 => env.gaslimit
  | 0x46 => env.chainid
  | 0x58 => s.pc
  | 0x59 => s.mem.length
  | 0x5a => s.gas
  | _ => 0

def arg (args : List Word) (i : Nat) : Word := args[i]?.getD 0

/-- `operation.memorySize(stack)`: `none` = overflow -/
def memSize (k : OpKind) (args : List Word) : Option Nat :=
  match k with
  | .mload => calcMemSizeU (arg args 0) 32
  | .mstore => calcMemSizeU (arg args 0) 32
  | .mstore8 => calcMemSizeU (arg args 0) 1
  | .sha3 => calcMemSize (arg args 0) (arg args 1)
  | .ret => calcMemSize (arg args 0) (arg args 1)
  | .revert => calcMemSize (arg args 0) (arg args 1)
  | .log _ => calcMemSize (arg args 0) (arg args 1)
  | .calldatacopy => calcMemSize (arg args 0) (arg args 2)
  | .codecopy => calcMemSize (arg args 0) (arg args 2)
  | _ => some 0

/-- `operation.dynamicGas(...)`: `(cost, new lastGasCost)`; `none` = the function returned an error -/
def dynGas (k : OpKind) (args : List Word) (s : State) (memorySize : Nat) : Option (Nat × Nat) :=
  match k with
  | .exp => (safeAdd (byteLen (arg args 1) * 50) 10).map (fun g => (g, s.memCost))
  | .sstore =>
    let cur := sload s.storage (arg args 0)
    let y := arg args 1
    if cur = 0 ∧ y ≠ 0 then some (20000, s.memCost)
    else if cur ≠ 0 ∧ y = 0 then some (5000, s.memCost)
    else some (5000, s.memCost)
  | .sha3 =>
    (memoryGasCost s.mem.length s.memCost memorySize).bind fun (g, last) =>
      if arg args 1 ≥ U64 then none else
      (safeMul (toWordSize (arg args 1)) 6).bind fun w => (safeAdd g w).map fun t => (t, last)
  | .calldatacopy | .codecopy =>
    (memoryGasCost s.mem.length s.memCost memorySize).bind fun (g, last) =>
      if arg args 2 ≥ U64 then none else
      (safeMul (toWordSize (arg args 2)) 3).bind fun w => (safeAdd g w).map fun t => (t, last)
  | .log n =>
    if arg args 1 ≥ U64 then none else
    (memoryGasCost s.mem.length s.memCost memorySize).bind fun (g, last) =>
      (safeAdd g 375).bind fun g1 => (safeAdd g1 (n * 375)).bind fun g2 =>
        (safeMul (arg args 1) 8).bind fun m => (safeAdd g2 m).map fun t => (t, last)
  | .mload | .mstore | .mstore8 | .ret | .revert => memoryGasCost s.mem.length s.memCost memorySize
  | _ => some (0, s.memCost)

/-- result of `operation.execute` -/
inductive Exec where
  | cont (results : List Word) (pc : Nat) (mem : Bytes) (storage : Storage) (logs : List Log)
  | stop (st : Status) (ret : Bytes)

/-- `operation.execute`, on the popped arguments; `pc` conventions as in `Run`: the returned pc is
the one *after* the `pc++` of the loop (jumps return the destination itself) -/
def exec (env : Env) (s : State) (k : OpKind) (args : List Word) (mem : Bytes) : Exec :=
  let nxt := s.pc + 1
  match k with
  | .stop => .stop .ok []
  | .un f => .cont [f (arg args 0) % W] nxt mem s.storage s.logs
  | .bin f => .cont [f (arg args 0) (arg args 1) % W] nxt mem s.storage s.logs
  | .tern f => .cont [f (arg args 0) (arg args 1) (arg args 2) % W] nxt mem s.storage s.logs
  | .exp => .cont [wexp (arg args 0) (arg args 1)] nxt mem s.storage s.logs
  | .sha3 => .cont [beVal (env.hash (memRead mem (arg args 0) (arg args 1))) % W] nxt mem s.storage s.logs
  | .env sel => .cont [envValue env { s with mem := mem } sel % W] nxt mem s.storage s.logs
  | .calldataload =>
    let x := arg args 0
    .cont [if x ≥ U64 then 0 else beVal (getData env.input x 32)] nxt mem s.storage s.logs
  | .calldatacopy =>
    let off := if arg args 1 ≥ U64 then U64 - 1 else arg args 1
    .cont [] nxt (memWrite mem (arg args 0) (getData env.input off (arg args 2))) s.storage s.logs
  | .codecopy =>
    let off := if arg args 1 ≥ U64 then U64 - 1 else arg args 1
    .cont [] nxt (memWrite mem (arg args 0) (getData env.code off (arg args 2))) s.storage s.logs
  | .pop => .cont [] nxt mem s.storage s.logs
  | .mload => .cont [beVal (memRead mem (arg args 0) 32)] nxt mem s.storage s.logs
  | .mstore => .cont [] nxt (memWrite mem (arg args 0) (word32 (arg args 1))) s.storage s.logs
  | .mstore8 => .cont [] nxt (memWrite mem (arg args 0) [UInt8.ofNat (arg args 1 % 256)]) s.storage s.logs
  | .sload => .cont [sload s.storage (arg args 0)] nxt mem s.storage s.logs
  | .sstore => .cont [] nxt mem (sstore s.storage (arg args 0) (arg args 1)) s.logs
  | .jump =>
    if validJumpdest env.code (arg args 0) then .cont [] (arg args 0) mem s.storage s.logs
    else .stop (.err .jump) []
  | .jumpi =>
    if arg args 1 ≠ 0 then
      if validJumpdest env.code (arg args 0) then .cont [] (arg args 0) mem s.storage s.logs
      else .stop (.err .jump) []
    else .cont [] nxt mem s.storage s.logs
  | .jumpdest => .cont [] nxt mem s.storage s.logs
  | .push n => .cont [beVal (rightPad ((env.code.drop (s.pc + 1)).take n) n)] (s.pc + n + 1) mem s.storage s.logs
  | .dup n => .cont (arg args (n - 1) :: args) nxt mem s.storage s.logs
  | .swap n =>
    -- args has n+1 items: exchange the first and the last
    .cont (arg args n :: ((args.drop 1).take (n - 1)) ++ [arg args 0]) nxt mem s.storage s.logs
  | .log n =>
    .cont [] nxt mem s.storage (((args.drop 2).take n, memRead mem (arg args 0) (arg args 1)) :: s.logs)
  | .ret => .stop .ok (memRead mem (arg args 0) (arg args 1))
  | .revert => .stop .revert (memRead mem (arg args 0) (arg args 1))
  | .unsupported => .stop .unsupported []

def haltWith (s : State) (st : Status) (ret : Bytes) : Outcome := .halt { status := st, ret := ret, final := s }

/-- dynamic gas of an entry (`operation.dynamicGas != nil`) -/
def dynGasOf (info : OpInfo) (args : List Word) (s : State) (memorySize : Nat) : Option (Nat × Nat) :=
  if info.dyn then dynGas info.kind args s memorySize else some (0, s.memCost)
/-- second `UseGas` of `Run`: the dynamic cost alone after Galaxias, constant + dynamic before -/
def chargeOf (info : OpInfo) (post : Bool) (dynCost : Nat) : Nat :=
  if info.dyn then (if post then dynCost else info.gas + dynCost) else 0
/-- `if memorySize > 0 { mem.Resize(memorySize) }` -/
def growMem (mem : Bytes) (memorySize : Nat) : Bytes :=
  if memorySize > 0 then memResize mem memorySize else mem

/-- one iteration of the loop of `Interpreter.Run` -/
def step (env : Env) (s : State) : Outcome :=
  match opInfo env.post (getOp env.code s.pc) with
  | none => haltWith s (.err .invalid) []
  | some info =>
    if info.kind.isUnsupported then haltWith s .unsupported []
    else if s.stack.length < info.minStack then haltWith s (.err .underflow) []
    else if s.stack.length > info.maxStack then haltWith s (.err .overflow) []
    else if env.readOnly && info.writes then haltWith s (.err .wprot) []
    else if s.gas < info.gas then haltWith s (.err .oog) []
    else
      let args := s.stack.take info.pops
      match memSize info.kind args with
      | none => haltWith s (.err .gasovf) []
      | some msz =>
        if toWordSize msz * 32 ≥ U64 then haltWith s (.err .gasovf) []
        else
          match dynGasOf info args s (toWordSize msz * 32) with
          | none => haltWith s (.err .oog) []
          | some (dynCost, last) =>
            if s.gas - info.gas < chargeOf info env.post dynCost then haltWith s (.err .oog) []
            else
              let s1 : State := { s with gas := s.gas - info.gas - chargeOf info env.post dynCost,
                                         mem := growMem s.mem (toWordSize msz * 32), memCost := last }
              match exec env s1 info.kind args s1.mem with
              | .stop st ret => haltWith s1 st ret
              | .cont results pc mem' storage' logs' =>
                .next { pc := pc, stack := results ++ s.stack.drop info.pops, mem := mem', memCost := last,
                        gas := s1.gas, storage := storage', logs := logs' }

def runLoop (env : Env) : Nat → State → Halt
  | 0, s => { status := .err .fuel, ret := [], final := s }
  | fuel + 1, s =>
    match step env s with
    | .halt h => h
    | .next s' => runLoop env fuel s'

/-- what `KVM.Call` / `StaticCall` hand back for one frame -/
structure Result where
  status : Status
  ret : Bytes
  storage : Storage
  logs : List Log       -- oldest first
  gasLeft : Nat

/-- snapshot / `RevertToSnapshot` / `gas = 0` logic of `KVM.Call` around `run` -/
def finish (storage0 : Storage) (h : Halt) : Result :=
  match h.status with
  | .ok => { status := .ok, ret := h.ret, storage := h.final.storage, logs := h.final.logs.reverse, gasLeft := h.final.gas }
  | .revert => { status := .revert, ret := h.ret, storage := storage0, logs := [], gasLeft := h.final.gas }
  | .err c => { status := .err c, ret := [], storage := storage0, logs := [], gasLeft := 0 }
  | .unsupported => { status := .unsupported, ret := [], storage := storage0, logs := [], gasLeft := 0 }

def initState (storage : Storage) (gas : Nat) : State :=
  { pc := 0, stack := [], mem := [], memCost := 0, gas := gas, storage := storage, logs := [] }

/-- the frame: empty code returns at once (`len(contract.Code) == 0`), otherwise the loop -/
def run (env : Env) (storage : Storage) (gas : Nat) (fuel : Nat) : Result :=
  if env.code.isEmpty then { status := .ok, ret := [], storage := storage, logs := [], gasLeft := gas }
  else finish storage (runLoop env fuel (initState storage gas))

/-- fuel that always suffices (every non-halting step costs at least one unit of gas) -/
def call (env : Env) (storage : Storage) (gas : Nat) : Result := run env storage gas (gas + 1)

end KV.Evm
