import KV.Base.Hex
/-!
# KVM interpreter with nested CALL / STATICCALL frames (model of `/repo/kvm`, property C10)

Transcribes, branch by branch, `Interpreter.Run` (`interpreter.go`), the per-opcode functions of
`instructions.go`, the jump tables of `instruction_set.go` (`opInfo`, written by hand here and meant
to be compared with the regenerated table by a bridge theorem), `stack.go` (`minStack/maxStack`),
`gas.go` (`memoryGasCost`, `gasSha3`, `memoryCopierGas`, `makeGasLog`, `gasSStore`, `gasExp`),
`memory.go` / `utils.go` (`calcMemSize64`, `toWordSize`, `getData`), `contract.go`
(`validJumpdest`, `codeBitmap`) and the snapshot/revert wrapper of `KVM.Call` (`kvm.go`).

* Words are `Nat` below `2^256`; every operation reduces modulo `2^256`.
* Frames: `step`/`runLoop`/`interp` are one `Interpreter.Run`; nested `CALL` and `STATICCALL` go through
  the wrapper `callFrame` (`KVM.Call` / `KVM.StaticCall` of `kvm.go`: depth check, `CanTransfer`,
  snapshot, touch / account creation, transfer, run, revert + gas rule), which recurses on
  `n = 1025 - kvm.depth`; `createFrame` is a top-level `KVM.create`. Still `Status.unsupported` as soon
  as fetched / entered: `BALANCE`, `EXTCODE*`, `RETURNDATA*`, `BLOCKHASH`, `SELFBALANCE`, `CALLCODE`,
  `DELEGATECALL`, `CREATE*` opcodes, `SELFDESTRUCT`, precompiled contracts (addresses 1..8).
* Gas is a `Nat` compared before each subtraction (`Contract.UseGas`), including the pre-Galaxias
  behaviour of charging the constant gas a second time together with the dynamic gas
  (`cost += dynamicCost; UseGas(cost)` in `Run`).
* The hash function of `SHA3` is a parameter of the environment.
-/
namespace KV.Evm

abbrev Word := Nat
/-- 2^256 -/
abbrev W : Nat := 2 ^ 256
/-- 2^64 -/
abbrev U64 : Nat := 2 ^ 64

/-! ## word arithmetic (uint256 library semantics) -/

def wadd (a b : Word) : Word := (a + b) % W
def wmul (a b : Word) : Word := (a * b) % W
def wsub (a b : Word) : Word := (a + (W - b % W)) % W
def wdiv (a b : Word) : Word := if b = 0 then 0 else a / b
def wmod (a b : Word) : Word := if b = 0 then 0 else a % b
/-- sign bit (bit 255) set -/
def isNeg (a : Word) : Bool := decide (2 ^ 255 ≤ a)
/-- two's complement negation -/
def wneg (a : Word) : Word := (W - a % W) % W
def wabs (a : Word) : Word := if isNeg a then wneg a else a
/-- `uint256.SDiv`: quotient of the absolute values, negated when the signs differ; 0 for divisor 0 -/
def sdiv (a b : Word) : Word :=
  if b = 0 then 0 else
    let q := wabs a / wabs b
    if isNeg a != isNeg b then wneg q else q
/-- `uint256.SMod`: remainder of the absolute values with the sign of the dividend -/
def smod (a b : Word) : Word :=
  if b = 0 then 0 else
    let r := wabs a % wabs b
    if isNeg a then wneg r else r
def addmod (a b m : Word) : Word := if m = 0 then 0 else (a + b) % m
def mulmod (a b m : Word) : Word := if m = 0 then 0 else (a * b) % m
/-- square-and-multiply, `fuel` = number of exponent bits still to look at -/
def powMod (b e : Nat) : Nat → Nat
  | 0 => 1
  | fuel + 1 =>
    if e = 0 then 1 else
      let h := powMod ((b * b) % W) (e / 2) fuel
      if e % 2 = 1 then (b * h) % W else h
def wexp (b e : Word) : Word := powMod b e 256 % W
/-- `ExtendSign(x, byteNum)` -/
def signextend (b x : Word) : Word :=
  if b > 31 then x else
    let bits := 8 * (b + 1)
    let low := x % 2 ^ bits
    if 2 ^ (bits - 1) ≤ low then low + (W - 2 ^ bits) else low
def wlt (a b : Word) : Word := if a < b then 1 else 0
def wgt (a b : Word) : Word := if a > b then 1 else 0
def sltB (a b : Word) : Bool := if isNeg a = isNeg b then decide (a < b) else isNeg a
def wslt (a b : Word) : Word := if sltB a b then 1 else 0
def wsgt (a b : Word) : Word := if sltB b a then 1 else 0
def weq (a b : Word) : Word := if a = b then 1 else 0
def wiszero (a : Word) : Word := if a = 0 then 1 else 0
def wand (a b : Word) : Word := a &&& b
def wor (a b : Word) : Word := a ||| b
def wxor (a b : Word) : Word := a ^^^ b
def wnot (a : Word) : Word := W - 1 - a % W
/-- `val.Byte(th)`: byte number `th` counted from the most significant one -/
def wbyte (th val : Word) : Word := if th < 32 then (val / 2 ^ (8 * (31 - th))) % 256 else 0
def wshl (s v : Word) : Word := if s < 256 then (v * 2 ^ s) % W else 0
def wshr (s v : Word) : Word := if s < 256 then v / 2 ^ s else 0
/-- `opSAR`: shifts above 256 are answered by the sign, the rest by `SRsh` -/
def wsar (s v : Word) : Word :=
  if isNeg v then (if s ≥ 256 then W - 1 else W - 1 - (W - 1 - v % W) / 2 ^ s)
  else (if s ≥ 256 then 0 else v / 2 ^ s)

/-- two's complement reading of a word -/
def toInt (x : Word) : Int := if x < 2 ^ 255 then (x : Int) else (x : Int) - (W : Int)
def ofInt (i : Int) : Word := (i % (W : Int)).toNat

/-! ## bytes -/

def beVal (bs : Bytes) : Nat := bs.foldl (fun a b => a * 256 + b.toNat) 0
/-- big-endian, exactly `n` bytes (value taken modulo `256^n`) -/
def beFixed : Nat → Nat → Bytes
  | 0, _ => []
  | n + 1, v => beFixed n (v / 256) ++ [UInt8.ofNat (v % 256)]
def word32 (v : Word) : Bytes := beFixed 32 v
def zeros (n : Nat) : Bytes := List.replicate n 0
def rightPad (bs : Bytes) (n : Nat) : Bytes := bs ++ zeros (n - bs.length)
/-- `getData(data, start, size)` (`utils.go`) -/
def getData (data : Bytes) (start size : Nat) : Bytes :=
  rightPad ((data.drop start).take size) size
/-- significant bytes of a word: `(BitLen + 7) / 8` -/
def byteLen : Nat → Nat
  | 0 => 0
  | n + 1 => byteLen ((n + 1) / 256) + 1
decreasing_by omega

/-! ## memory -/

def memResize (mem : Bytes) (size : Nat) : Bytes :=
  if mem.length < size then mem ++ zeros (size - mem.length) else mem
/-- `Memory.GetPtr/GetCopy(off, size)`: empty for size 0 -/
def memRead (mem : Bytes) (off size : Nat) : Bytes :=
  if size = 0 then [] else rightPad ((mem.drop off).take size) size
/-- `Memory.Set(off, size, val)` with `size = val.length`; no-op for the empty value -/
def memWrite (mem : Bytes) (off : Nat) (val : Bytes) : Bytes :=
  if val.isEmpty then mem else mem.take off ++ val ++ mem.drop (off + val.length)

/-- `toWordSize` (`utils.go`) -/
def toWordSize (size : Nat) : Nat :=
  if size > U64 - 1 - 31 then (U64 - 1) / 32 + 1 else (size + 31) / 32

/-- `calcMemSize64WithUint`; `none` = overflow -/
def calcMemSizeU (off : Word) (len : Nat) : Option Nat :=
  if len = 0 then some 0
  else if off ≥ U64 then none
  else
    let v := (off + len) % U64
    if v < off then none else some v
/-- `calcMemSize64` -/
def calcMemSize (off len : Word) : Option Nat :=
  if len ≥ U64 then none else calcMemSizeU off len

/-- `memoryGasCost(mem, newMemSize)`: `(fee, new lastGasCost)`; `none` = `ErrGasUintOverflow` -/
def memoryGasCost (memLen lastCost newMemSize : Nat) : Option (Nat × Nat) :=
  if newMemSize = 0 then some (0, lastCost)
  else if newMemSize > 0x1FFFFFFFE0 then none
  else
    let words := toWordSize newMemSize
    if words * 32 > memLen then
      let total := words * 3 + words * words / 512
      some (total - lastCost, total)
    else some (0, lastCost)

def safeAdd (a b : Nat) : Option Nat := if a + b ≥ U64 then none else some (a + b)
def safeMul (a b : Nat) : Option Nat := if a * b ≥ U64 then none else some (a * b)

/-! ## jump destination analysis (`contract.go`) -/

/-- number of immediate bytes of an opcode (`PUSH1..PUSH32`) -/
def pushLen (b : UInt8) : Nat := if 0x60 ≤ b.toNat ∧ b.toNat ≤ 0x7f then b.toNat - 0x5f else 0

/-- `codeBitmap`: for every position, `true` = push data.  `skip` = data bytes still to mark. -/
def dataMask : Bytes → Nat → List Bool
  | [], _ => []
  | b :: rest, 0 => false :: dataMask rest (pushLen b)
  | _ :: rest, k + 1 => true :: dataMask rest k

/-- `Contract.validJumpdest(dest)` -/
def validJumpdest (code : Bytes) (dest : Word) : Bool :=
  if dest ≥ U64 ∨ dest ≥ code.length then false
  else if code[dest]? != some 0x5b then false
  else (dataMask code 0)[dest]? == some false

/-! ## the jump table -/

inductive OpKind where
  | stop
  | un (f : Word → Word)
  | bin (f : Word → Word → Word)
  | tern (f : Word → Word → Word → Word)
  | exp
  | sha3
  | env (sel : Nat)       -- 0-ary push of an environment / machine value
  | calldataload
  | calldatacopy
  | codecopy
  | pop
  | mload
  | mstore
  | mstore8
  | sload
  | sstore
  | jump
  | jumpi
  | jumpdest
  | push (n : Nat)
  | dup (n : Nat)
  | swap (n : Nat)
  | log (n : Nat)
  | ret
  | revert
  | call        -- CALL: nested frame through `Sub`
  | staticcall  -- STATICCALL
  | unsupported

structure OpInfo where
  kind : OpKind
  pops : Nat
  pushes : Nat
  gas : Nat            -- constantGas
  minStack : Nat
  maxStack : Nat
  dyn : Bool := false  -- has a dynamicGas function
  memsz : Bool := false -- has a memorySize function
  halts : Bool := false
  jumps : Bool := false
  writes : Bool := false
  reverts : Bool := false
  returns : Bool := false

def stackLimit : Nat := 1024
/-- `minStack(pops, push)` / `maxStack(pop, push)` of `stack.go` -/
def minStackF (pops _push : Nat) : Nat := pops
def maxStackF (pop push : Nat) : Nat := stackLimit + pop - push

/-- table entry built the way `instruction_set.go` builds it -/
def mk (kind : OpKind) (pops pushes gas : Nat) : OpInfo :=
  { kind, pops, pushes, gas, minStack := minStackF pops pushes, maxStack := maxStackF pops pushes }

-- gas tiers (`configs/params.go`)
def gQuick := 2
def gFastest := 3
def gFast := 5
def gMid := 8
def gSlow := 10
def gExt := 20

/-- `newV1InstructionSet` (and `newV2InstructionSet` = v1 + CHAINID when `post`) -/
def opInfoN (post : Bool) (n : Nat) : Option OpInfo :=
  if 0x60 ≤ n ∧ n ≤ 0x7f then some (mk (.push (n - 0x5f)) 0 1 gFastest)
  else if 0x80 ≤ n ∧ n ≤ 0x8f then some (mk (.dup (n - 0x7f)) (n - 0x7f) (n - 0x7f + 1) gFastest)
  else if 0x90 ≤ n ∧ n ≤ 0x9f then some (mk (.swap (n - 0x8f)) (n - 0x8f + 1) (n - 0x8f + 1) gFastest)
  else if 0xa0 ≤ n ∧ n ≤ 0xa4 then
    some { mk (.log (n - 0xa0)) (n - 0xa0 + 2) 0 0 with dyn := true, memsz := true, writes := true }
  else match n with
  | 0x00 => some { mk .stop 0 0 0 with halts := true }
  | 0x01 => some (mk (.bin wadd) 2 1 gFastest)
  | 0x02 => some (mk (.bin wmul) 2 1 gFast)
  | 0x03 => some (mk (.bin wsub) 2 1 gFastest)
  | 0x04 => some (mk (.bin wdiv) 2 1 gFast)
  | 0x05 => some (mk (.bin sdiv) 2 1 gFast)
  | 0x06 => some (mk (.bin wmod) 2 1 gFast)
  | 0x07 => some (mk (.bin smod) 2 1 gFast)
  | 0x08 => some (mk (.tern addmod) 3 1 gMid)
  | 0x09 => some (mk (.tern mulmod) 3 1 gMid)
  | 0x0a => some { mk .exp 2 1 0 with dyn := true }
  | 0x0b => some (mk (.bin signextend) 2 1 gFast)
  | 0x10 => some (mk (.bin wlt) 2 1 gFastest)
  | 0x11 => some (mk (.bin wgt) 2 1 gFastest)
  | 0x12 => some (mk (.bin wslt) 2 1 gFastest)
  | 0x13 => some (mk (.bin wsgt) 2 1 gFastest)
  | 0x14 => some (mk (.bin weq) 2 1 gFastest)
  | 0x15 => some (mk (.un wiszero) 1 1 gFastest)
  | 0x16 => some (mk (.bin wand) 2 1 gFastest)
  | 0x17 => some (mk (.bin wor) 2 1 gFastest)
  | 0x18 => some (mk (.bin wxor) 2 1 gFastest)
  | 0x19 => some (mk (.un wnot) 1 1 gFastest)
  | 0x1a => some (mk (.bin wbyte) 2 1 gFastest)
  | 0x1b => some (mk (.bin wshl) 2 1 gFastest)
  | 0x1c => some (mk (.bin wshr) 2 1 gFastest)
  | 0x1d => some (mk (.bin wsar) 2 1 gFastest)
  | 0x20 => some { mk .sha3 2 1 30 with dyn := true, memsz := true }
  | 0x30 => some (mk (.env 0x30) 0 1 gQuick)                 -- ADDRESS
  | 0x31 => some (mk .unsupported 1 1 400)                   -- BALANCE
  | 0x32 => some (mk (.env 0x32) 0 1 gQuick)                 -- ORIGIN
  | 0x33 => some (mk (.env 0x33) 0 1 gQuick)                 -- CALLER
  | 0x34 => some (mk (.env 0x34) 0 1 gQuick)                 -- CALLVALUE
  | 0x35 => some (mk .calldataload 1 1 gFastest)
  | 0x36 => some (mk (.env 0x36) 0 1 gQuick)                 -- CALLDATASIZE
  | 0x37 => some { mk .calldatacopy 3 0 gFastest with dyn := true, memsz := true }
  | 0x38 => some (mk (.env 0x38) 0 1 gQuick)                 -- CODESIZE
  | 0x39 => some { mk .codecopy 3 0 gFastest with dyn := true, memsz := true }
  | 0x3a => some (mk (.env 0x3a) 0 1 gQuick)                 -- GASPRICE
  | 0x3b => some (mk .unsupported 1 1 700)                   -- EXTCODESIZE
  | 0x3c => some { mk .unsupported 4 0 700 with dyn := true, memsz := true } -- EXTCODECOPY
  | 0x3d => some (mk .unsupported 0 1 gQuick)                -- RETURNDATASIZE
  | 0x3e => some { mk .unsupported 3 0 gFastest with dyn := true, memsz := true } -- RETURNDATACOPY
  | 0x3f => some (mk .unsupported 1 1 400)                   -- EXTCODEHASH
  | 0x40 => some (mk .unsupported 1 1 gExt)                  -- BLOCKHASH
  | 0x41 => some (mk (.env 0x41) 0 1 gQuick)                 -- COINBASE
  | 0x42 => some (mk (.env 0x42) 0 1 gQuick)                 -- TIMESTAMP
  | 0x43 => some (mk (.env 0x43) 0 1 gQuick)                 -- NUMBER
  | 0x44 => some (mk (.env 0x44) 0 1 gQuick)                 -- GASLIMIT (KVM numbering)
  | 0x46 => if post then some (mk (.env 0x46) 0 1 gQuick) else none -- CHAINID (enable1344)
  | 0x47 => some (mk .unsupported 0 1 gFast)                 -- SELFBALANCE
  | 0x50 => some (mk .pop 1 0 gQuick)
  | 0x51 => some { mk .mload 1 1 gFastest with dyn := true, memsz := true }
  | 0x52 => some { mk .mstore 2 0 gFastest with dyn := true, memsz := true }
  | 0x53 => some { mk .mstore8 2 0 gFastest with dyn := true, memsz := true }
  | 0x54 => some (mk .sload 1 1 50)
  | 0x55 => some { mk .sstore 2 0 0 with dyn := true, writes := true }
  | 0x56 => some { mk .jump 1 0 gMid with jumps := true }
  | 0x57 => some { mk .jumpi 2 0 gSlow with jumps := true }
  | 0x58 => some (mk (.env 0x58) 0 1 gQuick)                 -- PC
  | 0x59 => some (mk (.env 0x59) 0 1 gQuick)                 -- MSIZE
  | 0x5a => some (mk (.env 0x5a) 0 1 gQuick)                 -- GAS
  | 0x5b => some (mk .jumpdest 0 0 1)
  | 0xf0 => some { mk .unsupported 3 1 32000 with dyn := true, memsz := true, writes := true, returns := true }
  | 0xf1 => some { mk .call 7 1 40 with dyn := true, memsz := true, returns := true }
  | 0xf2 => some { mk .unsupported 7 1 40 with dyn := true, memsz := true, returns := true }
  | 0xf3 => some { mk .ret 2 0 0 with dyn := true, memsz := true, halts := true }
  | 0xf4 => some { mk .unsupported 6 1 40 with dyn := true, memsz := true, returns := true }
  | 0xf5 => some { mk .unsupported 4 1 32000 with dyn := true, memsz := true, writes := true, returns := true }
  | 0xfa => some { mk .staticcall 6 1 700 with dyn := true, memsz := true, returns := true }
  | 0xfd => some { mk .revert 2 0 0 with dyn := true, memsz := true, reverts := true, returns := true }
  | 0xff => some { mk .unsupported 1 0 0 with dyn := true, halts := true, writes := true }
  | _ => none

/-- the jump table entry of an opcode; `none` = undefined opcode (`operation == nil`) -/
def opInfo (post : Bool) (op : UInt8) : Option OpInfo := opInfoN post op.toNat

/-- stack arities implied by the semantics of a kind (what `exec` really pops / pushes) -/
def OpKind.pops : OpKind → Nat
  | .stop => 0 | .un _ => 1 | .bin _ => 2 | .tern _ => 3 | .exp => 2 | .sha3 => 2 | .env _ => 0
  | .calldataload => 1 | .calldatacopy => 3 | .codecopy => 3 | .pop => 1 | .mload => 1
  | .mstore => 2 | .mstore8 => 2 | .sload => 1 | .sstore => 2 | .jump => 1 | .jumpi => 2
  | .jumpdest => 0 | .push _ => 0 | .dup n => n | .swap n => n + 1 | .log n => n + 2
  | .ret => 2 | .revert => 2 | .call => 7 | .staticcall => 6 | .unsupported => 0
def OpKind.pushes : OpKind → Nat
  | .stop => 0 | .un _ => 1 | .bin _ => 1 | .tern _ => 1 | .exp => 1 | .sha3 => 1 | .env _ => 1
  | .calldataload => 1 | .calldatacopy => 0 | .codecopy => 0 | .pop => 0 | .mload => 1
  | .mstore => 0 | .mstore8 => 0 | .sload => 1 | .sstore => 0 | .jump => 0 | .jumpi => 0
  | .jumpdest => 0 | .push _ => 1 | .dup n => n + 1 | .swap n => n + 1 | .log _ => 0
  | .ret => 0 | .revert => 0 | .call => 1 | .staticcall => 1 | .unsupported => 0
/-- kinds whose own execution changes storage or logs (nested frames: see `isCall`) -/
def OpKind.modifies : OpKind → Bool
  | .sstore => true | .log _ => true | _ => false
def OpKind.isUnsupported : OpKind → Bool
  | .unsupported => true | _ => false
/-- kinds that run a nested frame -/
def OpKind.isCall : OpKind → Bool
  | .call => true | .staticcall => true | _ => false

/-! ## world -/

abbrev Storage := List (Word × Word)
abbrev Log := List Word × Bytes

def sload (st : Storage) (k : Word) : Word := ((st.find? (fun p => p.1 == k)).map (·.2)).getD 0
def sstore (st : Storage) (k v : Word) : Storage := (k, v) :: st.filter (fun p => p.1 != k)

/-- a state object as far as the VM sees it -/
structure Account where
  balance : Nat
  nonce : Nat
  code : Bytes
  storage : Storage

def Account.empty : Account := { balance := 0, nonce := 0, code := [], storage := [] }

/-- the `StateDB`: live state objects (association list, first match wins) and the logs of the
transaction (newest first, tagged with the emitting address) -/
structure World where
  accts : List (Word × Account)
  logs : List (Word × Log)

def World.find (w : World) (a : Word) : Option Account := (w.accts.find? (fun p => p.1 == a)).map (·.2)
/-- what the getters of `StateDB` answer: a missing object reads as the empty account -/
def World.get (w : World) (a : Word) : Account := (w.find a).getD Account.empty
def World.set (w : World) (a : Word) (x : Account) : World :=
  { w with accts := (a, x) :: w.accts.filter (fun p => p.1 != a) }
/-- `StateDB.Exist` -/
def World.exist (w : World) (a : Word) : Bool := (w.find a).isSome
/-- `StateDB.Empty`: no object, or nonce = balance = 0 and no code -/
def World.isEmpty (w : World) (a : Word) : Bool :=
  let x := w.get a
  x.nonce == 0 && x.balance == 0 && x.code.isEmpty
/-- `GetOrNewStateObject` (what `AddBalance(addr, 0)` / `CreateAccount` of a missing address do) -/
def World.touch (w : World) (a : Word) : World := if w.exist a then w else w.set a Account.empty
def World.addBalance (w : World) (a : Word) (v : Nat) : World :=
  w.set a { w.get a with balance := (w.get a).balance + v }
def World.subBalance (w : World) (a : Word) (v : Nat) : World :=
  w.set a { w.get a with balance := (w.get a).balance - v }
/-- `Transfer(db, from, to, v)`: `SubBalance` then `AddBalance` -/
def World.transfer (w : World) (src dst : Word) (v : Nat) : World := (w.subBalance src v).addBalance dst v
def World.sload (w : World) (a k : Word) : Word := KV.Evm.sload (w.get a).storage k
def World.sstore (w : World) (a k v : Word) : World :=
  w.set a { w.get a with storage := KV.Evm.sstore (w.get a).storage k v }
def World.addLog (w : World) (a : Word) (l : Log) : World := { w with logs := (a, l) :: w.logs }

/-! ## machine -/

structure Env where
  code : Bytes
  input : Bytes
  hash : Bytes → Bytes
  post : Bool        -- Galaxias rules (v2 instruction set, dynamic gas charged alone)
  readOnly : Bool    -- `Interpreter.readOnly` while this frame runs
  address : Word
  caller : Word
  origin : Word
  callvalue : Word
  gasprice : Word
  coinbase : Word
  timestamp : Word
  number : Word
  gaslimit : Word
  chainid : Word

structure State where
  pc : Nat
  stack : List Word      -- head = top of stack
  mem : Bytes
  memCost : Nat          -- Memory.lastGasCost
  gas : Nat
  world : World

inductive ErrClass where
  | oog | gasovf | underflow | overflow | invalid | jump | wprot | fuel | depth | balance | maxcode
  | codestore | collision
  deriving DecidableEq, Repr

inductive Status where
  | ok | revert | err (c : ErrClass) | unsupported
  deriving DecidableEq, Repr

/-- a nested message call as `opCall` / `opStaticCall` hand it to `KVM.Call` / `KVM.StaticCall` -/
structure CallReq where
  static : Bool      -- STATICCALL
  readOnly : Bool    -- `Interpreter.readOnly` of the calling frame (stays set below a static frame)
  caller : Word
  addr : Word
  input : Bytes
  gas : Nat
  value : Nat

/-- what `KVM.Call` / `StaticCall` return, together with the state they leave -/
structure CallOut where
  world : World
  gasLeft : Nat
  status : Status
  ret : Bytes

/-- the frame wrapper one level further down -/
abbrev Sub := World → CallReq → CallOut

/-- what a frame ends with (before the snapshot/revert logic of `Call`) -/
structure Halt where
  status : Status
  ret : Bytes
  final : State

inductive Outcome where
  | next (s : State)
  | halt (h : Halt)

def getOp (code : Bytes) (pc : Nat) : UInt8 := code[pc]?.getD 0

def envValue (env : Env) (s : State) (sel : Nat) : Word :=
  match sel with
  | 0x30 => env.address
  | 0x32 => env.origin
  | 0x33 => env.caller
  | 0x34 => env.callvalue
  | 0x36 => env.input.length
  | 0x38 => env.code.length
  | 0x3a => env.gasprice
  | 0x41 => env.coinbase
  | 0x42 => env.timestamp
  | 0x43 => env.number
  | 0x44 => env.gaslimit
  | 0x46 => env.chainid
  | 0x58 => s.pc
  | 0x59 => s.mem.length
  | 0x5a => s.gas
  | _ => 0

def arg (args : List Word) (i : Nat) : Word := args[i]?.getD 0

/-- `max(x, y)` of two memory ranges, overflow if either overflows (`memoryCall`, `memoryStaticCall`) -/
def memSize2 (a b : Option Nat) : Option Nat :=
  match a, b with
  | some x, some y => some (if x > y then x else y)
  | _, _ => none

/-- `operation.memorySize(stack)`: `none` = overflow -/
def memSize (k : OpKind) (args : List Word) : Option Nat :=
  match k with
  | .mload => calcMemSizeU (arg args 0) 32
  | .mstore => calcMemSizeU (arg args 0) 32
  | .mstore8 => calcMemSizeU (arg args 0) 1
  | .sha3 => calcMemSize (arg args 0) (arg args 1)
  | .ret => calcMemSize (arg args 0) (arg args 1)
  | .revert => calcMemSize (arg args 0) (arg args 1)
  | .log _ => calcMemSize (arg args 0) (arg args 1)
  | .calldatacopy => calcMemSize (arg args 0) (arg args 2)
  | .codecopy => calcMemSize (arg args 0) (arg args 2)
  | .call => memSize2 (calcMemSize (arg args 5) (arg args 6)) (calcMemSize (arg args 3) (arg args 4))
  | .staticcall => memSize2 (calcMemSize (arg args 4) (arg args 5)) (calcMemSize (arg args 2) (arg args 3))
  | _ => some 0

/-- 20-byte address of a stack word (`Bytes20`) -/
def toAddr (x : Word) : Word := x % 2 ^ 160
/-- the precompiled contracts `PrecompiledContractsV0` live at addresses 1..8 -/
def isPrecompile (a : Word) : Bool := decide (1 ≤ a ∧ a ≤ 8)

/-- `callGas(availableGas, base, callCost)` (`gas.go`): all but one 64th, or the requested amount.
`none` when `base` exceeds the available gas (the Go code wraps around and then fails the charge) -/
def callGas (avail base : Nat) (callCost : Word) : Option Nat :=
  if base > avail then none
  else
    let a := avail - base
    let g := a - a / 64
    if callCost ≥ U64 ∨ g < callCost then some g else some callCost

/-- the part of `gasCall` / `gasStaticCall` before `callGas`: `(base, new lastGasCost)` -/
def callBase (k : OpKind) (args : List Word) (s : State) (memorySize : Nat) : Option (Nat × Nat) :=
  match k with
  | .call =>
    let value := arg args 2
    let a := toAddr (arg args 1)
    let g0 := (if value ≠ 0 ∧ s.world.isEmpty a then 25000 else 0) + (if s.world.exist a then 0 else 25000)
              + (if value ≠ 0 then 9000 else 0)
    (memoryGasCost s.mem.length s.memCost memorySize).bind fun (mg, last) =>
      (safeAdd g0 mg).map fun b => (b, last)
  | .staticcall => memoryGasCost s.mem.length s.memCost memorySize
  | _ => none

/-- `kvm.callGasTemp` as set by the dynamic gas function; `gasAvail` = `contract.Gas` at that point -/
def callGasTemp (k : OpKind) (args : List Word) (s : State) (gasAvail memorySize : Nat) : Option Nat :=
  (callBase k args s memorySize).bind fun (b, _) => callGas gasAvail b (arg args 0)


/-- `operation.dynamicGas(...)`: `(cost, new lastGasCost)`; `none` = the function returned an error.
`self` = `contract.Address()`, `gasAvail` = `contract.Gas` when the function runs -/
def dynGas (k : OpKind) (args : List Word) (s : State) (self gasAvail memorySize : Nat) : Option (Nat × Nat) :=
  match k with
  | .exp => (safeAdd (byteLen (arg args 1) * 50) 10).map (fun g => (g, s.memCost))
  | .sstore =>
    let cur := s.world.sload self (arg args 0)
    let y := arg args 1
    if cur = 0 ∧ y ≠ 0 then some (20000, s.memCost)
    else if cur ≠ 0 ∧ y = 0 then some (5000, s.memCost)
    else some (5000, s.memCost)
  | .sha3 =>
    (memoryGasCost s.mem.length s.memCost memorySize).bind fun (g, last) =>
      if arg args 1 ≥ U64 then none else
      (safeMul (toWordSize (arg args 1)) 6).bind fun w => (safeAdd g w).map fun t => (t, last)
  | .calldatacopy | .codecopy =>
    (memoryGasCost s.mem.length s.memCost memorySize).bind fun (g, last) =>
      if arg args 2 ≥ U64 then none else
      (safeMul (toWordSize (arg args 2)) 3).bind fun w => (safeAdd g w).map fun t => (t, last)
  | .log n =>
    if arg args 1 ≥ U64 then none else
    (memoryGasCost s.mem.length s.memCost memorySize).bind fun (g, last) =>
      (safeAdd g 375).bind fun g1 => (safeAdd g1 (n * 375)).bind fun g2 =>
        (safeMul (arg args 1) 8).bind fun m => (safeAdd g2 m).map fun t => (t, last)
  | .mload | .mstore | .mstore8 | .ret | .revert => memoryGasCost s.mem.length s.memCost memorySize
  | .call | .staticcall =>
    (callBase k args s memorySize).bind fun (b, last) =>
      (callGas gasAvail b (arg args 0)).bind fun t => (safeAdd b t).map fun tot => (tot, last)
  | _ => some (0, s.memCost)

/-- result of `operation.execute` -/
inductive Exec where
  | cont (results : List Word) (pc : Nat) (mem : Bytes) (world : World) (gasBack : Nat)
  | stop (st : Status) (ret : Bytes)

/-- `Memory.Set(off, size, value)`: copies `min(size, len(value))` bytes -/
def memSet (mem : Bytes) (off size : Nat) (val : Bytes) : Bytes :=
  if size = 0 then mem else memWrite mem off (val.take size)

/-- the tail of `opCall` / `opStaticCall` once `KVM.Call` has answered -/
def afterCall (s : State) (mem : Bytes) (retOff retSize : Word) (out : CallOut) : Exec :=
  match out.status with
  | .unsupported => .stop .unsupported []
  | .ok => .cont [1] (s.pc + 1) (memSet mem retOff retSize out.ret) out.world out.gasLeft
  | .revert => .cont [0] (s.pc + 1) (memSet mem retOff retSize out.ret) out.world out.gasLeft
  | .err _ => .cont [0] (s.pc + 1) mem out.world out.gasLeft

/-- `operation.execute`, on the popped arguments; `pc` conventions as in `Run`: the returned pc is
the one *after* the `pc++` of the loop (jumps return the destination itself). `cgt` is
`kvm.callGasTemp`, `sub` the frame wrapper for nested calls. -/
def exec (sub : Sub) (env : Env) (s : State) (k : OpKind) (args : List Word) (mem : Bytes) (cgt : Nat) : Exec :=
  let nxt := s.pc + 1
  match k with
  | .stop => .stop .ok []
  | .un f => .cont [f (arg args 0) % W] nxt mem s.world 0
  | .bin f => .cont [f (arg args 0) (arg args 1) % W] nxt mem s.world 0
  | .tern f => .cont [f (arg args 0) (arg args 1) (arg args 2) % W] nxt mem s.world 0
  | .exp => .cont [wexp (arg args 0) (arg args 1)] nxt mem s.world 0
  | .sha3 => .cont [beVal (env.hash (memRead mem (arg args 0) (arg args 1))) % W] nxt mem s.world 0
  | .env sel => .cont [envValue env { s with mem := mem } sel % W] nxt mem s.world 0
  | .calldataload =>
    let x := arg args 0
    .cont [if x ≥ U64 then 0 else beVal (getData env.input x 32)] nxt mem s.world 0
  | .calldatacopy =>
    let off := if arg args 1 ≥ U64 then U64 - 1 else arg args 1
    .cont [] nxt (memWrite mem (arg args 0) (getData env.input off (arg args 2))) s.world 0
  | .codecopy =>
    let off := if arg args 1 ≥ U64 then U64 - 1 else arg args 1
    .cont [] nxt (memWrite mem (arg args 0) (getData env.code off (arg args 2))) s.world 0
  | .pop => .cont [] nxt mem s.world 0
  | .mload => .cont [beVal (memRead mem (arg args 0) 32)] nxt mem s.world 0
  | .mstore => .cont [] nxt (memWrite mem (arg args 0) (word32 (arg args 1))) s.world 0
  | .mstore8 => .cont [] nxt (memWrite mem (arg args 0) [UInt8.ofNat (arg args 1 % 256)]) s.world 0
  | .sload => .cont [s.world.sload env.address (arg args 0)] nxt mem s.world 0
  | .sstore => .cont [] nxt mem (s.world.sstore env.address (arg args 0) (arg args 1)) 0
  | .jump =>
    if validJumpdest env.code (arg args 0) then .cont [] (arg args 0) mem s.world 0
    else .stop (.err .jump) []
  | .jumpi =>
    if arg args 1 ≠ 0 then
      if validJumpdest env.code (arg args 0) then .cont [] (arg args 0) mem s.world 0
      else .stop (.err .jump) []
    else .cont [] nxt mem s.world 0
  | .jumpdest => .cont [] nxt mem s.world 0
  | .push n => .cont [beVal (rightPad ((env.code.drop (s.pc + 1)).take n) n)] (s.pc + n + 1) mem s.world 0
  | .dup n => .cont (arg args (n - 1) :: args) nxt mem s.world 0
  | .swap n =>
    -- args has n+1 items: exchange the first and the last
    .cont (arg args n :: ((args.drop 1).take (n - 1)) ++ [arg args 0]) nxt mem s.world 0
  | .log n =>
    .cont [] nxt mem (s.world.addLog env.address ((args.drop 2).take n, memRead mem (arg args 0) (arg args 1))) 0
  | .ret => .stop .ok (memRead mem (arg args 0) (arg args 1))
  | .revert => .stop .revert (memRead mem (arg args 0) (arg args 1))
  | .call =>
    -- gas, addr, value, inOffset, inSize, retOffset, retSize
    let value := arg args 2
    let out := sub s.world
      { static := false, readOnly := env.readOnly, caller := env.address, addr := toAddr (arg args 1),
        input := memRead mem (arg args 3) (arg args 4),
        gas := if value ≠ 0 then cgt + 2300 else cgt, value := value }
    afterCall s mem (arg args 5) (arg args 6) out
  | .staticcall =>
    -- gas, addr, inOffset, inSize, retOffset, retSize
    let out := sub s.world
      { static := true, readOnly := env.readOnly, caller := env.address, addr := toAddr (arg args 1),
        input := memRead mem (arg args 2) (arg args 3), gas := cgt, value := 0 }
    afterCall s mem (arg args 4) (arg args 5) out
  | .unsupported => .stop .unsupported []

def haltWith (s : State) (st : Status) (ret : Bytes) : Outcome := .halt { status := st, ret := ret, final := s }

/-- dynamic gas of an entry (`operation.dynamicGas != nil`) -/
def dynGasOf (info : OpInfo) (args : List Word) (s : State) (self gasAvail memorySize : Nat) : Option (Nat × Nat) :=
  if info.dyn then dynGas info.kind args s self gasAvail memorySize else some (0, s.memCost)
/-- second `UseGas` of `Run`: the dynamic cost alone after Galaxias, constant + dynamic before -/
def chargeOf (info : OpInfo) (post : Bool) (dynCost : Nat) : Nat :=
  if info.dyn then (if post then dynCost else info.gas + dynCost) else 0
/-- `if memorySize > 0 { mem.Resize(memorySize) }` -/
def growMem (mem : Bytes) (memorySize : Nat) : Bytes :=
  if memorySize > 0 then memResize mem memorySize else mem
/-- `op == CALL && stack.Back(2).Sign() != 0` -/
def callWithValue (k : OpKind) (args : List Word) : Bool :=
  match k with
  | .call => arg args 2 != 0
  | _ => false
/-- `kvm.callGasTemp` (0 for the other kinds) -/
def cgtOf (k : OpKind) (args : List Word) (s : State) (gasAvail memorySize : Nat) : Nat :=
  if k.isCall then (callGasTemp k args s gasAvail memorySize).getD 0 else 0

/-- one iteration of the loop of `Interpreter.Run` -/
def step (sub : Sub) (env : Env) (s : State) : Outcome :=
  match opInfo env.post (getOp env.code s.pc) with
  | none => haltWith s (.err .invalid) []
  | some info =>
    if info.kind.isUnsupported then haltWith s .unsupported []
    else if s.stack.length < info.minStack then haltWith s (.err .underflow) []
    else if s.stack.length > info.maxStack then haltWith s (.err .overflow) []
    else if env.readOnly && (info.writes || callWithValue info.kind (s.stack.take info.pops)) then
      haltWith s (.err .wprot) []
    else if s.gas < info.gas then haltWith s (.err .oog) []
    else
      let args := s.stack.take info.pops
      match memSize info.kind args with
      | none => haltWith s (.err .gasovf) []
      | some msz =>
        if toWordSize msz * 32 ≥ U64 then haltWith s (.err .gasovf) []
        else
          match dynGasOf info args s env.address (s.gas - info.gas) (toWordSize msz * 32) with
          | none => haltWith s (.err .oog) []
          | some (dynCost, last) =>
            if s.gas - info.gas < chargeOf info env.post dynCost then haltWith s (.err .oog) []
            else
              let s1 : State := { s with gas := s.gas - info.gas - chargeOf info env.post dynCost,
                                         mem := growMem s.mem (toWordSize msz * 32), memCost := last }
              match exec sub env s1 info.kind args s1.mem (cgtOf info.kind args s (s.gas - info.gas) (toWordSize msz * 32)) with
              | .stop st ret => haltWith s1 st ret
              | .cont results pc mem' world' gasBack =>
                .next { pc := pc, stack := results ++ s.stack.drop info.pops, mem := mem', memCost := last,
                        gas := s1.gas + gasBack, world := world' }

def runLoop (sub : Sub) (env : Env) : Nat → State → Halt
  | 0, s => { status := .err .fuel, ret := [], final := s }
  | fuel + 1, s =>
    match step sub env s with
    | .halt h => h
    | .next s' => runLoop sub env fuel s'

def initState (world : World) (gas : Nat) : State :=
  { pc := 0, stack := [], mem := [], memCost := 0, gas := gas, world := world }

/-- `Interpreter.Run`: empty code returns at once, otherwise the loop. The fuel `gas + 1` always
suffices (every continuing step costs at least one unit of gas: `KV.Evm.run_total_gas`). -/
def interp (sub : Sub) (env : Env) (world : World) (gas : Nat) : Halt :=
  if env.code.isEmpty then { status := .ok, ret := [], final := initState world gas }
  else runLoop sub env (gas + 1) (initState world gas)

/-! ## the frame wrappers of `kvm.go` -/

/-- environment constants of a transaction (block context, origin, gas price, instruction set) -/
structure TxEnv where
  hash : Bytes → Bytes
  post : Bool
  origin : Word
  gasprice : Word
  coinbase : Word
  timestamp : Word
  number : Word
  gaslimit : Word
  chainid : Word

def TxEnv.frame (t : TxEnv) (code input : Bytes) (readOnly : Bool) (address caller callvalue : Word) : Env :=
  { code, input, hash := t.hash, post := t.post, readOnly, address, caller, origin := t.origin, callvalue,
    gasprice := t.gasprice, coinbase := t.coinbase, timestamp := t.timestamp, number := t.number,
    gaslimit := t.gaslimit, chainid := t.chainid }

/-- the error handling shared by `Call`, `StaticCall` (and `create`): on any error go back to the
snapshot; keep the remaining gas only for `ErrExecutionReverted` -/
def settle (snapshot : World) (h : Halt) : CallOut :=
  match h.status with
  | .ok => { world := h.final.world, gasLeft := h.final.gas, status := .ok, ret := h.ret }
  | .revert => { world := snapshot, gasLeft := h.final.gas, status := .revert, ret := h.ret }
  | .err c => { world := snapshot, gasLeft := 0, status := .err c, ret := [] }
  | .unsupported => { world := snapshot, gasLeft := 0, status := .unsupported, ret := [] }

/-- `KVM.Call` / `KVM.StaticCall` with `n = 1025 - kvm.depth` levels left: `n = 0` is
`kvm.depth > CallCreateDepth` -/
def callFrame (t : TxEnv) : Nat → Sub
  | 0, w, req => { world := w, gasLeft := req.gas, status := .err .depth, ret := [] }
  | n + 1, w, req =>
    if req.static then
      -- StaticCall: snapshot, touch (`AddBalance(addr, 0)`), run read-only
      let w1 := w.touch req.addr
      if isPrecompile req.addr then { world := w, gasLeft := 0, status := .unsupported, ret := [] }
      else
        settle w (interp (callFrame t n)
          (t.frame (w1.get req.addr).code req.input true req.addr req.caller 0) w1 req.gas)
    else
      -- Call
      if req.value ≠ 0 ∧ (w.get req.caller).balance < req.value then
        { world := w, gasLeft := req.gas, status := .err .balance, ret := [] }
      else if ¬ w.exist req.addr ∧ ¬ isPrecompile req.addr ∧ req.value = 0 then
        { world := w, gasLeft := req.gas, status := .ok, ret := [] }
      else
        let w1 := (w.touch req.addr).transfer req.caller req.addr req.value
        if isPrecompile req.addr then { world := w, gasLeft := 0, status := .unsupported, ret := [] }
        else
          settle w (interp (callFrame t n)
            (t.frame (w1.get req.addr).code req.input req.readOnly req.addr req.caller req.value) w1 req.gas)

/-- the wrapper as seen from a frame running at call depth `d` (`kvm.depth = d`) -/
def callAtDepth (t : TxEnv) (d : Nat) : Sub := callFrame t (1025 - d)

def maxCodeSize : Nat := 39231
def createDataGas : Nat := 200

/-- the code-deposit stage of `KVM.create` after an init run that ended without error:
`maxCodeSizeExceeded`, `createDataGas`, `SetCode` -/
def deposit (snapshot : World) (addr : Word) (h : Halt) : CallOut :=
  if h.ret.length > maxCodeSize then { world := snapshot, gasLeft := 0, status := .err .maxcode, ret := h.ret }
  else if h.final.gas < h.ret.length * createDataGas then
    { world := snapshot, gasLeft := 0, status := .err .codestore, ret := h.ret }
  else
    { world := h.final.world.set addr { h.final.world.get addr with code := h.ret },
      gasLeft := h.final.gas - h.ret.length * createDataGas, status := .ok, ret := h.ret }

def finishCreate (snapshot : World) (addr : Word) (h : Halt) : CallOut :=
  match h.status with
  | .ok => deposit snapshot addr h
  | _ => settle snapshot h

/-- the world in which the init code runs: new account with nonce 1 (keeping the balance of an
existing object), value transferred -/
def createWorld (w0 : World) (caller addr : Word) (value : Nat) : World :=
  (w0.set addr { Account.empty with balance := (w0.get addr).balance, nonce := 1 }).transfer caller addr value

def bumpNonce (w : World) (a : Word) : World := w.set a { w.get a with nonce := (w.get a).nonce + 1 }

/-- `KVM.create` for a top-level creation (`kvm.depth = 0`) at address `addr`; the snapshot is
taken after the caller's nonce bump -/
def createFrame (t : TxEnv) (w : World) (caller addr : Word) (initCode : Bytes) (gas value : Nat) : CallOut :=
  if (w.get caller).balance < value then { world := w, gasLeft := gas, status := .err .balance, ret := [] }
  else if ((bumpNonce w caller).get addr).nonce ≠ 0 ∨ ¬ ((bumpNonce w caller).get addr).code.isEmpty then
    { world := bumpNonce w caller, gasLeft := 0, status := .err .collision, ret := [] }
  else
    finishCreate (bumpNonce w caller) addr
      (interp (callFrame t 1024) (t.frame initCode [] false addr caller value)
        (createWorld (bumpNonce w caller) caller addr value) gas)

/-- top-level `KVM.Call` / `KVM.StaticCall` (`kvm.depth = 0`) -/
def call (t : TxEnv) (w : World) (req : CallReq) : CallOut := callAtDepth t 0 w req

end KV.Evm
