import KV.Model.Merkle
/-! Model of `types/part_set.go`: splitting a byte string into parts, the `PartSet` state machine
(`NewPartSetFromData`, `NewPartSetFromHeader`, `AddPart`, `IsComplete`, `GetReader`) — the code
*after* fix F3 (`AddPart` binds the proof's own `Index`/`Total`). Parametrised by `H`. Core only.

Not modelled: the mutex, the bit array (a function of `parts`), `uint32` wrap-around of
`len(data) + partSize - 1` (sizes below 2^32 are assumed). -/
namespace KV.PartSet
open KV.Merkle

/-- `total := (len(data) + partSize - 1) / partSize` -/
def numParts (len size : Nat) : Nat := (len + size - 1) / size

/-- `data[i*partSize : min(len(data), (i+1)*partSize)]` -/
def partBytes (data : Bytes) (size i : Nat) : Bytes :=
  (data.take (min data.length ((i + 1) * size))).drop (i * size)

/-- the part payloads of `NewPartSetFromData(data, size)` (for `size > 0`) -/
def split (data : Bytes) (size : Nat) : List Bytes :=
  (List.range (numParts data.length size)).map (partBytes data size)

/-- what `PartSetReader` yields when read to EOF: the parts' bytes in index order -/
def join (parts : List Bytes) : Bytes := parts.flatten

/-- `common.BytesToHash`: crop from the left to 32 bytes / left-pad with zeros -/
def bytesToHash (b : Bytes) : Bytes :=
  if b.length ≥ 32 then b.drop (b.length - 32) else List.replicate (32 - b.length) 0 ++ b

structure Part where
  index : Nat
  bytes : Bytes
  proof : Proof
deriving DecidableEq, Repr

structure PartSet where
  total : Nat
  hash : Bytes
  parts : List (Option Part)
  count : Nat
deriving DecidableEq, Repr

inductive NewResult
  | panic                -- division by zero (`partSize = 0`) or nil dereference (no parts)
  | ok (ps : PartSet)
deriving DecidableEq, Repr

def mkParts : Nat → List Bytes → List Proof → List (Option Part)
  | i, b :: bs, p :: ps => some ⟨i, b, p⟩ :: mkParts (i + 1) bs ps
  | _, _, _ => []

variable (H : Bytes → Bytes)

/-- the genuine parts of `data` -/
def genuineParts (data : Bytes) (size : Nat) : List (Option Part) :=
  mkParts 0 (split data size) (proofs H (split data size))

/-- `NewPartSetFromData(data, partSize)`. For empty `data` there are no parts and
`SimpleProofsFromByteSlices` dereferences the nil root node: the code panics. -/
def newFromData (data : Bytes) (size : Nat) : NewResult :=
  if size = 0 then .panic
  else
    let items := split data size
    if items = [] then .panic
    else .ok { total := items.length, hash := bytesToHash (root H items),
               parts := genuineParts H data size, count := items.length }

/-- `NewPartSetFromHeader(PartSetHeader{Total, Hash})`; in the code `Hash` is a `[32]byte` -/
def newFromHeader (total : Nat) (hash : Bytes) : PartSet :=
  { total := total, hash := hash, parts := List.replicate total none, count := 0 }

inductive AddResult
  | unexpectedIndex      -- (false, ErrPartSetUnexpectedIndex)
  | alreadyPresent       -- (false, nil)
  | invalidProof         -- (false, ErrPartSetInvalidProof)
  | added                -- (true, nil)
deriving DecidableEq, Repr

/-- `(*PartSet).AddPart`, branch by branch (after fix F3) -/
def addPart (ps : PartSet) (p : Part) : PartSet × AddResult :=
  if p.index ≥ ps.total then (ps, .unexpectedIndex)
  else
    match ps.parts[p.index]? with
    | some (some _) => (ps, .alreadyPresent)
    | _ =>
      if p.proof.index ≠ p.index ∨ p.proof.total ≠ ps.total then (ps, .invalidProof)
      else if verify H ps.hash p.proof p.bytes ≠ .ok then (ps, .invalidProof)
      else ({ ps with parts := ps.parts.set p.index (some p), count := ps.count + 1 }, .added)

/-- `IsComplete`: `ps.count == ps.total` -/
def isComplete (ps : PartSet) : Bool := ps.count == ps.total

inductive ReadResult
  | panicIncomplete      -- PanicSanity("Cannot GetReader() on incomplete PartSet")
  | panicIndex           -- `parts[0]` of an empty slice (a complete part set with Total = 0)
  | panicNil             -- a nil slot (unreachable, see `Props.C13`)
  | ok (b : Bytes)
deriving DecidableEq, Repr

def allBytes : List (Option Part) → Option (List Bytes)
  | [] => some []
  | none :: _ => none
  | some p :: rest => (allBytes rest).map (p.bytes :: ·)

/-- `ioutil.ReadAll(ps.GetReader())` -/
def reader (ps : PartSet) : ReadResult :=
  if ¬ isComplete ps then .panicIncomplete
  else if ps.parts = [] then .panicIndex
  else
    match allBytes ps.parts with
    | none => .panicNil
    | some bs => .ok (join bs)

/-- run a sequence of `AddPart` calls -/
def run (ps : PartSet) (seq : List Part) : PartSet :=
  seq.foldl (fun s p => (addPart H s p).1) ps

end KV.PartSet
