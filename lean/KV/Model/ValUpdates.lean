import KV.Model.ValSet
/-!
# Model of `calculateValidatorSetUpdates` + `updateState` (kai/state/cstate/execution.go) — C06

```go
func calculateValidatorSetUpdates(lastVals, vals []*types.Validator) (updates []*types.Validator) {
	if len(vals) == 0 { return }
	last := make(map[common.Address]int64)
	for _, validator := range lastVals { last[validator.Address] = validator.VotingPower }
	for _, val := range vals {
		oldPower, found := last[val.Address]
		if !found || oldPower != val.VotingPower { updates = append(updates, val) }
		delete(last, val.Address)
	}
	for valAddr := range last { updates = append(updates, &types.Validator{Address: valAddr, VotingPower: 0}) }
	return updates
}
```

The Go map is made explicit: `PMap` is an association list with distinct keys whose *list order is
never observed* by the model — the only enumeration of the map in the code (`for valAddr := range
last`) is the explicit parameter `σ` of `calcValUpdates`, an arbitrary list that enumerates the
keys of the leftover map (`Enumerates`).  The order `π` in which the application reports the
validators is the order of the argument `reported`.  Core only (linked into `kvdrv`).
-/
namespace KV.ValUpdates
open KV.ValSet

/-- `map[common.Address]int64` -/
abbrev PMap := List (Nat × Int)

/-- `v, found := m[a]` -/
def PMap.get : PMap → Nat → Option Int
  | [], _ => none
  | (k, p) :: m, a => if k = a then some p else PMap.get m a

/-- `delete(m, a)` -/
def PMap.del (m : PMap) (a : Nat) : PMap := m.filter fun e => decide (e.1 ≠ a)

/-- `m[a] = p` (overwrites) -/
def PMap.set (m : PMap) (a : Nat) (p : Int) : PMap := PMap.del m a ++ [(a, p)]

def PMap.keys (m : PMap) : List Nat := m.map (·.1)

/-- first loop: `last[validator.Address] = validator.VotingPower` -/
def buildLast (lastVals : List Validator) : PMap :=
  lastVals.foldl (fun m v => PMap.set m v.addr v.power) []

/-- `!found || oldPower != val.VotingPower` -/
def changed (m : PMap) (v : Validator) : Bool :=
  match PMap.get m v.addr with
  | none => true
  | some old => decide (old ≠ v.power)

/-- second loop: (the map after all deletes, the appended updates in report order) -/
def scanReported : PMap → List Validator → PMap × List Validator
  | m, [] => (m, [])
  | m, v :: vs =>
    let r := scanReported (PMap.del m v.addr) vs
    (r.1, if changed m v then v :: r.2 else r.2)

/-- `&types.Validator{Address: valAddr, VotingPower: 0}` -/
def removal (a : Nat) : Validator := { addr := a, power := 0, prio := 0 }

/-- the map the third loop ranges over -/
def leftover (lastVals reported : List Validator) : PMap :=
  (scanReported (buildLast lastVals) reported).1

/-- `σ` is a possible outcome of `for k := range m`: every key exactly once, in any order -/
def Enumerates (σ : List Nat) (m : PMap) : Prop := σ.Perm (PMap.keys m)

/-- `calculateValidatorSetUpdates(lastVals, reported)` when Go's `range last` yields the keys in
the order `σ` -/
def calcValUpdates (lastVals reported : List Validator) (σ : List Nat) : List Validator :=
  if reported.isEmpty then []
  else (scanReported (buildLast lastVals) reported).2 ++ σ.map removal

/-- one concrete enumeration (the association-list order), used by the driver, which then sorts -/
def canonEnum (lastVals reported : List Validator) : List Nat := PMap.keys (leftover lastVals reported)

/-- the part of `updateState` that concerns the validator set:
`if len(validatorUpdates) > 0 { lastHeightValsChanged = h+2; nValSet.UpdateWithChangeSet(..) };
nValSet.IncrementProposerPriority(1)` — returns the next set and "the set changed at this height" -/
def updateStateVals (next : ValSet) (ups : List Validator) : Except Err (ValSet × Bool) :=
  match updateWithChangeSet next ups true with
  | .error e => .error e
  | .ok vs =>
    match increment vs 1 with
    | .error e => .error e
    | .ok vs' => .ok (vs', !ups.isEmpty)

/-- `ApplyBlock`'s validator pipeline:
`updateState(state, .., calculateValidatorSetUpdates(state.NextValidators.Validators, reported))` -/
def applyReported (next : ValSet) (reported : List Validator) (σ : List Nat) : Except Err (ValSet × Bool) :=
  updateStateVals next (calcValUpdates next.vals reported σ)

end KV.ValUpdates
