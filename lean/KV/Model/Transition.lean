import KV.Base.I64
/-! Model of the state transition of one transaction (property C09), written from
`mainchain/blockchain/state_processor.go` (`preCheck`, `buyGas`, `TransitionDb`, `refundGas`,
`gasUsed`), `mainchain/tx_pool/tx_pool_utils.go` (`IntrinsicGas`), `types/gas_pool.go`, the
top-level part of `kvm/kvm.go` (`Call`, `create`: `CanTransfer`, nonce bump, address collision,
snapshot, `Transfer`, revert on error, gas kept only on `REVERT`), `mainchain/kvm/kvm.go`
(`CanTransfer`, `Transfer`) and the transaction loop of `block_operations.go commitBlock`
(snapshot, apply, on error revert the state — not the gas pool — and skip).

Gas is `uint64` in the code: the model uses the wrapping operations of `KV.U64`, the theorems prove
that no wrap occurs. Balances, prices and values are `big.Int`: exact integers. The interpreter
(everything that happens between the value transfer and the error check of `Call`/`create`,
including pre-compiles and the code-deposit charge) is the parameter `run`. Core only. -/
namespace KV.Transition
open KV

abbrev Addr := Nat

/-- the part of an account the property talks about -/
structure Acct where
  bal : Int := 0
  nonce : Nat := 0
  code : Bool := false
deriving DecidableEq, Repr

/-- finite map as an association list (first match wins) -/
abbrev World := List (Addr × Acct)

def get : World → Addr → Acct
  | [], _ => {}
  | (k, v) :: r, a => if k = a then v else get r a

def set : World → Addr → Acct → World
  | [], a, v => [(a, v)]
  | (k, x) :: r, a, v => if k = a then (a, v) :: r else (k, x) :: set r a v

/-- sum of all balances -/
def total : World → Int
  | [] => 0
  | (_, v) :: r => v.bal + total r

/-- `StateDB.AddBalance` / `SubBalance` (negative amount) -/
def addBal (w : World) (a : Addr) (d : Int) : World :=
  set w a { get w a with bal := (get w a).bal + d }

def setNonce (w : World) (a : Addr) (n : Nat) : World :=
  set w a { get w a with nonce := n }

/-- `mainchain/kvm.CanTransfer`: `db.GetBalance(addr).Cmp(amount) >= 0` -/
def canTransfer (w : World) (a : Addr) (amount : Int) : Bool :=
  decide (Big.cmp (get w a).bal amount ≥ 0)

/-- `mainchain/kvm.Transfer`: `SubBalance(sender)`, then `AddBalance(recipient)` -/
def transfer (w : World) (sender recipient : Addr) (amount : Int) : World :=
  addBal (addBal w sender (-amount)) recipient amount

/-! ### transactions, frames, the interpreter parameter -/

structure Tx where
  sender : Addr
  /-- `none` = contract creation -/
  to : Option Addr
  /-- `crypto.CreateAddress(sender, nonce)` (a hash: given, not computed) -/
  newAddr : Addr := 0
  nonce : Nat
  gas : Nat
  price : Int
  value : Int
  data : List Nat := []
deriving DecidableEq, Repr

inductive VmErr | none | revert | fail
deriving DecidableEq, Repr

structure Frame where
  create : Bool
  caller : Addr
  addr : Addr
  gas : Nat
  value : Int
deriving DecidableEq, Repr

/-- what the interpreter did with a frame: new world, gas left, refund counter, error class, and
the amount it destroyed (funds self-destructed to the destructing account) -/
structure RunOut where
  world : World
  gasLeft : Nat
  refund : Nat := 0
  err : VmErr := .none
  burned : Int := 0
deriving DecidableEq, Repr

abbrev Run := World → Frame → RunOut

/-- `KVM.Call` at depth 0 (`kvm/kvm.go`): balance check, snapshot, transfer, run; on error revert
to the snapshot and keep the remaining gas only for `ErrExecutionReverted`. The refund counter
lives in the state, so a revert restores it (to 0 at the start of a transaction). -/
def callFrame (run : Run) (w : World) (f : Frame) : RunOut :=
  if Big.sign f.value ≠ 0 ∧ ¬ canTransfer w f.caller f.value then
    { world := w, gasLeft := f.gas, err := .fail }
  else
    let w1 := transfer w f.caller f.addr f.value
    let out := run w1 f
    if out.err ≠ .none then
      { world := w, gasLeft := if out.err = .revert then out.gasLeft else 0, refund := 0, err := out.err, burned := 0 }
    else out

/-- `KVM.create` at depth 0: balance check, caller nonce + 1 (before the snapshot: it survives a
failure), address collision (gas all consumed), snapshot, new account with nonce 1, transfer, run
(including the code-deposit charge); on error revert to the snapshot. -/
def createFrame (run : Run) (w : World) (f : Frame) : RunOut :=
  if ¬ canTransfer w f.caller f.value then
    { world := w, gasLeft := f.gas, err := .fail }
  else
    let w0 := setNonce w f.caller ((get w f.caller).nonce + 1)
    if (get w0 f.addr).nonce ≠ 0 ∨ (get w0 f.addr).code then
      { world := w0, gasLeft := 0, err := .fail }
    else
      let w2 := setNonce w0 f.addr 1
      let w3 := transfer w2 f.caller f.addr f.value
      let out := run w3 f
      if out.err ≠ .none then
        { world := w0, gasLeft := if out.err = .revert then out.gasLeft else 0, refund := 0, err := out.err, burned := 0 }
      else out

/-! ### gas arithmetic (hand-written; `KV.Props.C09` proves each equal to the definition generated
from the Go source, `KV.Gen.C09`) -/

def TxGas : Nat := 21000
def TxGasLegacy : Nat := 29000
def TxGasContractCreation : Nat := 53000
def TxDataZeroGas : Nat := 4
def TxDataNonZeroGas : Nat := 68
def maxU64 : Nat := 18446744073709551615

def countNZ (data : List Nat) : Nat :=
  data.foldl (fun nz byt => if byt ≠ 0 then U64.add nz 1 else nz) 0

/-- `tx_pool.IntrinsicGas`: `(gas, overflow?)` -/
def intrinsicGas (data : List Nat) (contractCreation legacy : Bool) : Nat × Bool :=
  let gas : Nat := if contractCreation then TxGasContractCreation else if legacy then TxGasLegacy else TxGas
  if (Int.ofNat data.length) > 0 then
    let nz := countNZ data
    if U64.div (U64.sub maxU64 gas) TxDataNonZeroGas < nz then (0, true)
    else
      let gas := U64.add gas (U64.mul nz TxDataNonZeroGas)
      let z := U64.sub (U64.wrap (Int.ofNat data.length)) nz
      if U64.div (U64.sub maxU64 gas) TxDataZeroGas < z then (0, true)
      else (U64.add gas (U64.mul z TxDataZeroGas), false)
  else (gas, false)

/-- `st.gasUsed()`: `st.initialGas - st.gas` (uint64) -/
def gasUsed (initialGas gas : Nat) : Nat := U64.sub initialGas gas

/-- `refundGas`, first half: `(refund, st.gas)` after `st.gas += refund` -/
def refundGas (initialGas gas stateRefund : Nat) : Nat × Nat :=
  let half := U64.div (gasUsed initialGas gas) 2
  let refund := if half > stateRefund then stateRefund else half
  (refund, U64.add gas refund)

def buyGasCost (gasLimit : Nat) (price : Int) : Int := (Int.ofNat gasLimit) * price
def buyGasInsufficientFunds (balance mgval : Int) : Bool := decide (Big.cmp balance mgval < 0)
def gasPoolSubFails (pool amount : Nat) : Bool := decide (pool < amount)
def gasPoolSub (pool amount : Nat) : Nat := U64.sub pool amount
def gasPoolAddPanics (pool amount : Nat) : Bool := decide (pool > U64.sub maxU64 amount)
def gasPoolAdd (pool amount : Nat) : Nat := U64.add pool amount

/-! ### the transition -/

inductive TxErr
  | nonceHigh | nonceLow | fundsGas | pool | intrinsic | fundsTransfer | overflow | poolPanic
deriving DecidableEq, Repr

structure TOut where
  world : World
  pool : Nat
  used : Nat
  /-- the refund granted (`min(used/2, counter)`) -/
  refund : Nat
  /-- the VM frame failed (receipt status 0) -/
  failed : Bool
  burned : Int
deriving DecidableEq, Repr

/-- result of `TransitionDb`: on rejection the world and pool *as the code leaves them*
(`ErrIntrinsicGas` and `ErrInsufficientFundsForTransfer` are raised after `buyGas`) -/
inductive Result
  | rejected (e : TxErr) (w : World) (pool : Nat)
  | ok (o : TOut)
deriving DecidableEq, Repr

/-- world after `buyGas`: the sender is debited `gas × price` -/
def worldBought (w : World) (tx : Tx) : World := addBal w tx.sender (-(buyGasCost tx.gas tx.price))

/-- gas handed to the VM: `st.gas` after `buyGas` (`st.gas += msg.Gas()` from 0) minus the intrinsic gas -/
def vmGas (legacy : Bool) (tx : Tx) : Nat :=
  U64.sub (U64.add 0 tx.gas) (intrinsicGas tx.data tx.to.isNone legacy).1

/-- the top-level frame: `vm.Create` for a creation; otherwise sender nonce + 1, then `vm.Call` -/
def frameOut (run : Run) (legacy : Bool) (w : World) (tx : Tx) : RunOut :=
  match tx.to with
  | none =>
    createFrame run (worldBought w tx)
      { create := true, caller := tx.sender, addr := tx.newAddr, gas := vmGas legacy tx, value := tx.value }
  | some to =>
    callFrame run (setNonce (worldBought w tx) tx.sender ((get (worldBought w tx) tx.sender).nonce + 1))
      { create := false, caller := tx.sender, addr := to, gas := vmGas legacy tx, value := tx.value }

/-- `StateTransition.TransitionDb` for message `tx` on world `w` with block gas pool `pool`;
`legacy` = not Galaxias (intrinsic-gas rule set), `coinbase` = `header.ProposerAddress`. -/
def transition (run : Run) (legacy : Bool) (coinbase : Addr) (w : World) (pool : Nat) (tx : Tx) : Result :=
  -- preCheck
  if (get w tx.sender).nonce < tx.nonce then .rejected .nonceHigh w pool
  else if (get w tx.sender).nonce > tx.nonce then .rejected .nonceLow w pool
  -- buyGas
  else if buyGasInsufficientFunds (get w tx.sender).bal (buyGasCost tx.gas tx.price) then .rejected .fundsGas w pool
  else if gasPoolSubFails pool tx.gas then .rejected .pool w pool
  -- intrinsic gas (from here on the sender is debited and the pool reduced)
  else if (intrinsicGas tx.data tx.to.isNone legacy).2 then
    .rejected .overflow (worldBought w tx) (gasPoolSub pool tx.gas)
  else if decide (U64.add 0 tx.gas < (intrinsicGas tx.data tx.to.isNone legacy).1) then
    .rejected .intrinsic (worldBought w tx) (gasPoolSub pool tx.gas)
  -- clause 6
  else if Big.sign tx.value > 0 ∧ ¬ canTransfer (worldBought w tx) tx.sender tx.value then
    .rejected .fundsTransfer (worldBought w tx) (gasPoolSub pool tx.gas)
  else
  let co := frameOut run legacy w tx
  -- refundGas: refund, return of the remaining gas to the sender and to the pool
  let rg := refundGas tx.gas co.gasLeft co.refund
  if gasPoolAddPanics (gasPoolSub pool tx.gas) rg.2 then
    .rejected .poolPanic (addBal co.world tx.sender ((Int.ofNat rg.2) * tx.price)) (gasPoolSub pool tx.gas)
  else
  -- fee to the coinbase
  .ok { world := addBal (addBal co.world tx.sender ((Int.ofNat rg.2) * tx.price)) coinbase
                   ((Int.ofNat (gasUsed tx.gas rg.2)) * tx.price),
        pool := gasPoolAdd (gasPoolSub pool tx.gas) rg.2,
        used := gasUsed tx.gas rg.2, refund := rg.1,
        failed := decide (co.err ≠ .none), burned := co.burned }

/-! ### block commit: `commitBlock`'s loop -/

structure BState where
  world : World
  pool : Nat
  receipts : List (Nat × Bool) := []   -- (gas used, failed) of the executed transactions, newest first
deriving DecidableEq, Repr

/-- one iteration: snapshot, `ApplyTransaction`; on error `RevertToSnapshot` (the world — the gas
pool is not part of the state and keeps whatever `TransitionDb` left in it) and skip -/
def commitStep (run : Run) (legacy : Bool) (coinbase : Addr) (s : BState) (tx : Tx) : BState :=
  match transition run legacy coinbase s.world s.pool tx with
  | .rejected _ _ pool' => { s with pool := pool' }
  | .ok o => { world := o.world, pool := o.pool, receipts := (o.used, o.failed) :: s.receipts }

def commitBlock (run : Run) (legacy : Bool) (coinbase : Addr) (s : BState) (txs : List Tx) : BState :=
  txs.foldl (commitStep run legacy coinbase) s

/-- `StateDB.Finalise` as far as balances and nonces go: accounts that self-destructed during the
transaction are deleted (whatever they still hold disappears) -/
def finalise (w : World) (dead : List Addr) : World :=
  dead.foldl (fun w a => set w a {}) w

end KV.Transition
