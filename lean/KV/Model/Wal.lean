import KV.Base.Hex
/-! Model of the consensus write-ahead log (property C15): consensus/wal.go
(`WALEncoder.Encode`, `WALDecoder.Decode`, `BaseWAL.SearchForEndHeight`), consensus/state.go
(`repairWalFile`) and lib/autofile/group.go (`Group`, `GroupReader.Read`).

Core Lean only. The checksum `crc`, the size limit `max` (`maxMsgSizeBytes`), the payload parser
`parse` (`proto.Unmarshal` + `WALFromProto`, abstracted to "rejected | end-height marker h | other
message") and the payload re-serialisation `reser` (`Marshal ∘ WALToProto ∘ WALFromProto ∘ Unmarshal`,
used only by repair) are parameters (`Cfg`). Payloads are opaque byte strings.

`Decode` calls `rd.Read(buf)` (NOT `io.ReadFull`), so what a short read does depends on the reader:
* `RKind.group` — `autofile.GroupReader.Read`: loops over the files until the buffer is full; a
  short read returns `(n, io.EOF)`; an empty buffer is an error ("given empty slice");
* `RKind.file`  — `*os.File` (repairWalFile, wal2json) / `bytes.Buffer`: one read of
  `min(len, remaining)` bytes with a nil error, `(0, io.EOF)` only when nothing remains and the
  buffer is non-empty; the rest of the buffer keeps its zeros;
* `RKind.bytes` — `bytes.Reader`: as `file`, but an empty buffer at end of input is `io.EOF`. -/
namespace KV.Wal

/-- big-endian 4 bytes of `n mod 2^32` (`binary.BigEndian.PutUint32`) -/
def be32 (n : Nat) : Bytes :=
  [UInt8.ofNat (n / 16777216 % 256), UInt8.ofNat (n / 65536 % 256),
   UInt8.ofNat (n / 256 % 256), UInt8.ofNat (n % 256)]

/-- `binary.BigEndian.Uint32` of a 4-byte buffer -/
def be32Val : Bytes → Nat
  | [a, b, c, d] => a.toNat * 16777216 + b.toNat * 65536 + c.toNat * 256 + d.toNat
  | _ => 0

/-- a `make([]byte, n)` buffer after a read that delivered `bs` (`bs.length ≤ n`): the tail keeps
its zeros -/
def pad (n : Nat) (bs : Bytes) : Bytes := bs ++ List.replicate (n - bs.length) 0

/-- flipping bit `i` (most significant bit of byte 0 first) of a byte string -/
def flipBit (s : Bytes) (i : Nat) : Bytes :=
  s.modify (i / 8) (fun b => b ^^^ (UInt8.ofNat (2 ^ (7 - i % 8))))

/-- what a payload parses to -/
inductive PKind where
  | endHeight (h : Int)
  | other
  deriving DecidableEq, Repr

structure Cfg where
  crc : Bytes → UInt32
  max : Nat
  parse : Bytes → Option PKind
  reser : Bytes → Bytes

/-! ## Encoder -/

/-- one record: `crc(data) ‖ len(data) ‖ data` -/
def frame (c : Cfg) (data : Bytes) : Bytes :=
  be32 (c.crc data).toNat ++ be32 data.length ++ data

/-- `WALEncoder.Encode` after marshalling: `length := uint32(len(data))` wraps, the size check is on
the wrapped value and only `length` bytes are copied. `none` = "msg is too big". -/
def encode (c : Cfg) (data : Bytes) : Option Bytes :=
  let length := data.length % 4294967296
  if length > c.max then none
  else some (be32 (c.crc data).toNat ++ be32 length ++ data.take length)

/-- the log written for a list of payloads (every one within the limit) -/
def frames (c : Cfg) : List Bytes → Bytes
  | [] => []
  | d :: ds => frame c d ++ frames c ds

/-! ## Readers -/

inductive RKind where
  | group | file | bytes
  deriving DecidableEq, Repr

inductive RErr where
  | ok | eof | other
  deriving DecidableEq, Repr

/-- one `Read(buf)` with `len(buf) = n` on a stream with remaining bytes `s`:
(bytes delivered, error, remaining stream) -/
def read (k : RKind) (n : Nat) (s : Bytes) : Bytes × RErr × Bytes :=
  match k with
  | .group =>
    if n = 0 then ([], .other, s)
    else if n ≤ s.length then (s.take n, .ok, s.drop n)
    else (s, .eof, [])
  | .file =>
    if n = 0 then ([], .ok, s)
    else if s.length = 0 then ([], .eof, [])
    else (s.take n, .ok, s.drop n)
  | .bytes =>
    if s.length = 0 then ([], .eof, [])
    else (s.take n, .ok, s.drop n)

/-- a `GroupReader`: the unread rest of the current file and the files not opened yet -/
structure GReader where
  cur : Bytes
  later : List Bytes
  deriving Repr

def GReader.flat (g : GReader) : Bytes := g.cur ++ g.later.flatten

/-- the loop of `GroupReader.Read`: `n > 0` bytes still wanted -/
def greadLoop (n : Nat) (cur : Bytes) (later : List Bytes) : Bytes × RErr × GReader :=
  match later with
  | [] =>
    if n ≤ cur.length then (cur.take n, .ok, ⟨cur.drop n, []⟩)
    else (cur, .eof, ⟨[], []⟩)              -- openFile(maxIndex+1) = io.EOF
  | f :: fs =>
    if n ≤ cur.length then (cur.take n, .ok, ⟨cur.drop n, f :: fs⟩)
    else
      let r := greadLoop (n - cur.length) f fs
      (cur ++ r.1, r.2.1, r.2.2)

def gread (n : Nat) (g : GReader) : Bytes × RErr × GReader :=
  if n = 0 then ([], .other, g) else greadLoop n g.cur g.later

/-- `group.NewReader(i)`; files are listed oldest first, the head is last -/
def openAt (files : List Bytes) (i : Nat) : GReader :=
  match files.drop i with
  | [] => ⟨[], []⟩
  | f :: fs => ⟨f, fs⟩

/-! ## Decoder -/

inductive Res (σ : Type) where
  | msg (data : Bytes) (rest : σ)
  | eof
  | corrupt (rest : σ)
  deriving Repr

/-- `WALDecoder.Decode` over a reader `rd`. First component: the size of the payload buffer that
was allocated (`make([]byte, length)`; 0 when the call returned before). -/
def decodeWith {σ : Type} (c : Cfg) (rd : Nat → σ → Bytes × RErr × σ) (s : σ) : Nat × Res σ :=
  match rd 4 s with
  | (b1, .eof, s1) =>
    -- errors.Is(err, io.EOF): the clean end of the log only when NOTHING was read (`nc == 0`);
    -- bytes together with io.EOF (the group reader at the end of the group) = a record torn inside
    -- its checksum field: DataCorruptionError "failed to read checksum … (read: nc, wanted: 4)" (F38)
    if b1 = [] then (0, .eof) else (0, .corrupt s1)
  | (_, .other, s1) => (0, .corrupt s1)            -- "failed to read checksum"
  | (b1, .ok, s1) =>
    match rd 4 s1 with
    | (_, .eof, s2) => (0, .corrupt s2)            -- "failed to read length"
    | (_, .other, s2) => (0, .corrupt s2)
    | (b2, .ok, s2) =>
      if be32Val (pad 4 b2) > c.max then (0, .corrupt s2)   -- checked BEFORE the allocation
      else
        match rd (be32Val (pad 4 b2)) s2 with
        | (_, .eof, s3) => (be32Val (pad 4 b2), .corrupt s3)     -- "failed to read data"
        | (_, .other, s3) => (be32Val (pad 4 b2), .corrupt s3)
        | (b3, .ok, s3) =>
          -- checksum over the whole (zero-filled) buffer, before the payload is parsed
          if (c.crc (pad (be32Val (pad 4 b2)) b3)).toNat ≠ be32Val (pad 4 b1) then
            (be32Val (pad 4 b2), .corrupt s3)
          else match c.parse (pad (be32Val (pad 4 b2)) b3) with
            | none => (be32Val (pad 4 b2), .corrupt s3)          -- Unmarshal / WALFromProto failed
            | some _ => (be32Val (pad 4 b2), .msg (pad (be32Val (pad 4 b2)) b3) s3)

def decodeA (c : Cfg) (k : RKind) (s : Bytes) : Nat × Res Bytes := decodeWith c (read k) s
def decode (c : Cfg) (k : RKind) (s : Bytes) : Res Bytes := (decodeA c k s).2
def decodeGA (c : Cfg) (g : GReader) : Nat × Res GReader := decodeWith c gread g
def decodeG (c : Cfg) (g : GReader) : Res GReader := (decodeGA c g).2

/-- mapping the stream component of a result -/
def Res.map {σ τ : Type} (f : σ → τ) : Res σ → Res τ
  | .msg d r => .msg d (f r)
  | .eof => .eof
  | .corrupt r => .corrupt (f r)

/-! ### facts needed for termination (and reused by the proofs) -/

theorem read_rest_le (k : RKind) (n : Nat) (s : Bytes) : (read k n s).2.2.length ≤ s.length := by
  cases k <;> simp only [read] <;> (repeat' split) <;> simp

theorem read_ok_lt (k : RKind) (n : Nat) (s : Bytes) (hn : 0 < n) (h : (read k n s).2.1 = .ok) :
    (read k n s).2.2.length < s.length := by
  have hn0 : ¬ n = 0 := by omega
  cases k
  · by_cases h1 : n ≤ s.length
    · simp [read, hn0, h1]; omega
    · simp [read, hn0, h1] at h
  · by_cases h1 : s.length = 0
    · simp [read, hn0, h1] at h
    · simp [read, hn0, h1]; omega
  · by_cases h1 : s.length = 0
    · simp [read, h1] at h
    · simp [read, h1]; omega

/-- inversion of a successful `Decode` -/
theorem decodeWith_msg_inv {σ : Type} (c : Cfg) (rd : Nat → σ → Bytes × RErr × σ) (s : σ)
    {a : Nat} {d : Bytes} {rest : σ} (h : decodeWith c rd s = (a, .msg d rest)) :
    ∃ b1 s1 b2 s2 b3, rd 4 s = (b1, .ok, s1) ∧ rd 4 s1 = (b2, .ok, s2) ∧
      be32Val (pad 4 b2) ≤ c.max ∧ rd (be32Val (pad 4 b2)) s2 = (b3, .ok, rest) ∧
      d = pad (be32Val (pad 4 b2)) b3 ∧ (c.crc d).toNat = be32Val (pad 4 b1) ∧
      c.parse d ≠ none ∧ a = be32Val (pad 4 b2) := by
  unfold decodeWith at h
  split at h
  · split at h <;> cases h
  · cases h
  · rename_i b1 s1 h1
    split at h
    · cases h
    · cases h
    · rename_i b2 s2 h2
      split at h
      · cases h
      · rename_i hmax
        split at h
        · cases h
        · cases h
        · rename_i b3 s3 h3
          split at h
          · cases h
          · rename_i hcrc
            split at h
            · cases h
            · rename_i hp
              injection h with ha hr
              injection hr with hd hrest
              subst hrest
              refine ⟨b1, s1, b2, s2, b3, h1, h2, by omega, h3, hd.symm, ?_, ?_, ha.symm⟩
              · rw [← hd]; simpa using hcrc
              · rw [← hd, hp]; simp

/-- where the reader stands after a corrupt result -/
theorem decodeWith_corrupt_inv {σ : Type} (c : Cfg) (rd : Nat → σ → Bytes × RErr × σ) (s : σ)
    {a : Nat} {r : σ} (h : decodeWith c rd s = (a, .corrupt r)) :
    (∃ b1, rd 4 s = (b1, .other, r) ∨ (rd 4 s = (b1, .eof, r) ∧ b1 ≠ [])) ∨
    ∃ b1 s1, rd 4 s = (b1, .ok, s1) ∧
      (r = (rd 4 s1).2.2 ∨ ∃ n, r = (rd n (rd 4 s1).2.2).2.2) := by
  unfold decodeWith at h
  split at h
  · rename_i b1 s1 h1
    split at h
    · cases h
    · rename_i hne
      injection h with _ hr; injection hr with hr; subst hr
      exact Or.inl ⟨b1, Or.inr ⟨h1, hne⟩⟩
  · rename_i b1 s1 h1
    injection h with _ hr; injection hr with hr; subst hr
    exact Or.inl ⟨b1, Or.inl h1⟩
  · rename_i b1 s1 h1
    refine Or.inr ⟨b1, s1, h1, ?_⟩
    split at h
    · rename_i h2; injection h with _ hr; injection hr with hr; subst hr; left; rw [h2]
    · rename_i h2; injection h with _ hr; injection hr with hr; subst hr; left; rw [h2]
    · rename_i b2 s2 h2
      split at h
      · injection h with _ hr; injection hr with hr; subst hr; left; rw [h2]
      · right
        refine ⟨be32Val (pad 4 b2), ?_⟩
        rw [h2]
        split at h
        · rename_i h3; injection h with _ hr; injection hr with hr; subst hr; rw [h3]
        · rename_i h3; injection h with _ hr; injection hr with hr; subst hr; rw [h3]
        · rename_i h3
          split at h
          · injection h with _ hr; injection hr with hr; subst hr; rw [h3]
          · split at h
            · injection h with _ hr; injection hr with hr; subst hr; rw [h3]
            · cases h

/-- two readers related by an abstraction function give related results -/
theorem decodeWith_sim {σ τ : Type} (c : Cfg) (rd₁ : Nat → σ → Bytes × RErr × σ)
    (rd₂ : Nat → τ → Bytes × RErr × τ) (f : σ → τ)
    (hsim : ∀ n s, rd₂ n (f s) = ((rd₁ n s).1, (rd₁ n s).2.1, f (rd₁ n s).2.2)) (s : σ) :
    decodeWith c rd₂ (f s) = ((decodeWith c rd₁ s).1, (decodeWith c rd₁ s).2.map f) := by
  unfold decodeWith
  rw [hsim 4 s]
  rcases h1 : rd₁ 4 s with ⟨b1, e1, s1⟩
  cases e1 <;> simp only [Res.map]
  case eof => split <;> simp only [Res.map]
  rw [hsim 4 s1]
  rcases h2 : rd₁ 4 s1 with ⟨b2, e2, s2⟩
  cases e2 <;> simp only [Res.map]
  split
  · simp only [Res.map]
  · rw [hsim _ s2]
    rcases h3 : rd₁ (be32Val (pad 4 b2)) s2 with ⟨b3, e3, s3⟩
    cases e3 <;> simp only [Res.map]
    split
    · simp only [Res.map]
    · split <;> simp only [Res.map]

theorem read_group_within (n : Nat) (cur t : Bytes) (hn : ¬ n = 0) (h : n ≤ cur.length) :
    read .group n (cur ++ t) = (cur.take n, .ok, cur.drop n ++ t) := by
  have h2 : n ≤ (cur ++ t).length := by rw [List.length_append]; omega
  simp only [read, hn, h2, if_true, if_false, List.take_append_of_le_length h,
    List.drop_append_of_le_length h]

theorem read_group_beyond (n : Nat) (cur t : Bytes) (h : cur.length < n) :
    read .group n (cur ++ t) =
      (cur ++ (read .group (n - cur.length) t).1, (read .group (n - cur.length) t).2.1,
        (read .group (n - cur.length) t).2.2) := by
  have hn : ¬ n = 0 := by omega
  have hn' : ¬ n - cur.length = 0 := by omega
  simp only [read, hn, hn', if_false, List.length_append]
  by_cases h3 : n ≤ cur.length + t.length
  · have h4 : n - cur.length ≤ t.length := by omega
    simp only [h3, h4, if_true]
    rw [List.take_append, List.take_of_length_le (by omega : cur.length ≤ n),
      List.drop_append, List.drop_of_length_le (by omega : cur.length ≤ n)]
    simp
  · have h4 : ¬ n - cur.length ≤ t.length := by omega
    simp only [h3, h4, if_false]

theorem greadLoop_flat (n : Nat) (cur : Bytes) (later : List Bytes) (hn : 0 < n) :
    read .group n (cur ++ later.flatten) =
      ((greadLoop n cur later).1, (greadLoop n cur later).2.1, (greadLoop n cur later).2.2.flat) := by
  have hn0 : ¬ n = 0 := by omega
  induction later generalizing n cur with
  | nil =>
    unfold greadLoop
    by_cases h : n ≤ cur.length
    · simp [read, h, GReader.flat, hn0]
    · simp [read, h, GReader.flat, hn0]
  | cons f fs ih =>
    unfold greadLoop
    by_cases h : n ≤ cur.length
    · rw [read_group_within n cur _ hn0 h]
      simp only [h, if_true, GReader.flat]
    · have hn' : 0 < n - cur.length := by omega
      have i := ih (n - cur.length) f hn' (by omega)
      simp only [h, if_false]
      rw [List.flatten_cons, read_group_beyond n cur _ (by omega), i]

theorem gread_flat (n : Nat) (g : GReader) :
    read .group n g.flat = ((gread n g).1, (gread n g).2.1, (gread n g).2.2.flat) := by
  unfold gread
  by_cases hn : n = 0
  · simp [hn, read]
  · simp only [hn, if_false]
    exact greadLoop_flat n g.cur g.later (by omega)

/-- decoding through a group reader = decoding the concatenation of its files -/
theorem decodeGA_flat (c : Cfg) (g : GReader) :
    decodeA c .group g.flat = ((decodeGA c g).1, (decodeGA c g).2.map GReader.flat) :=
  decodeWith_sim c gread (read .group) GReader.flat (fun n s => gread_flat n s) g

theorem decodeG_flat (c : Cfg) (g : GReader) :
    decode c .group g.flat = (decodeG c g).map GReader.flat := by
  unfold decode decodeG; rw [decodeGA_flat]

theorem decode_msg_lt (c : Cfg) (k : RKind) (s : Bytes) {d rest : Bytes}
    (h : decode c k s = .msg d rest) : rest.length < s.length := by
  have h' : decodeWith c (read k) s = ((decodeA c k s).1, .msg d rest) := by
    rw [← h]; rfl
  obtain ⟨b1, s1, b2, s2, b3, h1, h2, _, h3, _⟩ := decodeWith_msg_inv c (read k) s h'
  have l1 := read_ok_lt k 4 s (by omega) (by rw [h1])
  have l2 := read_rest_le k 4 s1
  have l3 := read_rest_le k (be32Val (pad 4 b2)) s2
  rw [h1] at l1; rw [h2] at l2; rw [h3] at l3
  simp only at l1 l2 l3
  omega

/-- a message or corrupt result through a group reader has consumed input -/
theorem decodeG_lt (c : Cfg) (g r : GReader) {d : Bytes}
    (h : decodeG c g = .msg d r ∨ decodeG c g = .corrupt r) : r.flat.length < g.flat.length := by
  have hm := decodeG_flat c g
  rcases h with h | h
  · rw [h] at hm
    exact decode_msg_lt c .group g.flat hm
  · rw [h] at hm
    have h' : decodeWith c (read .group) g.flat = ((decodeA c .group g.flat).1, .corrupt r.flat) := by
      rw [← (show decode c .group g.flat = Res.corrupt r.flat from hm)]; rfl
    rcases decodeWith_corrupt_inv c (read .group) g.flat h' with ⟨b1, h1 | ⟨h1, hne⟩⟩ | ⟨b1, s1, h1, h2⟩
    · simp [read] at h1
      split at h1 <;> simp at h1
    · simp only [read] at h1
      split at h1
      · cases h1
      · split at h1
        · cases h1
        · injection h1 with e1 e2
          injection e2 with _ e3
          rw [← e3]
          have : 0 < g.flat.length := by
            rw [e1]; exact List.length_pos_iff.mpr hne
          simpa using this
    · have l1 := read_ok_lt .group 4 g.flat (by omega) (by rw [h1])
      rw [h1] at l1
      simp only at l1
      have l2 := read_rest_le .group 4 s1
      rcases h2 with h2 | ⟨n, h2⟩
      · rw [h2]; omega
      · have l3 := read_rest_le .group n (read .group 4 s1).2.2
        rw [h2]; omega



/-! ## Reading a whole log -/

inductive Verdict where
  | eof | corrupt
  deriving DecidableEq, Repr

/-- decode until the first error: the payloads returned and how the log ended -/
def decodeAll (c : Cfg) (k : RKind) (s : Bytes) : List Bytes × Verdict :=
  match h : decode c k s with
  | .eof => ([], .eof)
  | .corrupt _ => ([], .corrupt)
  | .msg d rest =>
    let r := decodeAll c k rest
    (d :: r.1, r.2)
termination_by s.length
decreasing_by exact decode_msg_lt c k s h

/-- the same through a group reader (catchupReplay's loop) -/
def decodeAllG (c : Cfg) (g : GReader) : List Bytes × Verdict :=
  match h : decodeG c g with
  | .eof => ([], .eof)
  | .corrupt _ => ([], .corrupt)
  | .msg d rest =>
    let r := decodeAllG c rest
    (d :: r.1, r.2)
termination_by g.flat.length
decreasing_by exact decodeG_lt c g rest (Or.inl h)

/-- largest payload buffer requested while reading the whole log -/
def maxAlloc (c : Cfg) (k : RKind) (s : Bytes) : Nat :=
  match h : decode c k s with
  | .msg _ rest => Nat.max (decodeA c k s).1 (maxAlloc c k rest)
  | _ => (decodeA c k s).1
termination_by s.length
decreasing_by exact decode_msg_lt c k s h

/-! ## SearchForEndHeight -/

inductive ScanRes where
  | found (g : GReader)
  | eof (last : Int)
  | err
  deriving Repr

/-- the inner `for { dec.Decode() … }` loop on one reader; `last` = `lastHeightFound` -/
def scan (c : Cfg) (height : Int) (ignore : Bool) (last : Int) (g : GReader) : ScanRes :=
  match h : decodeG c g with
  | .eof => .eof last
  | .corrupt r => if ignore then scan c height ignore last r else .err
  | .msg d r =>
    match c.parse d with
    | some (.endHeight m) => if m = height then .found r else scan c height ignore m r
    | _ => scan c height ignore last r
termination_by g.flat.length
decreasing_by
  · exact decodeG_lt c g r (d := []) (Or.inr h)
  · exact decodeG_lt c g r (Or.inl h)
  · exact decodeG_lt c g r (Or.inl h)

inductive SearchRes where
  | found (g : GReader)
  | notFound
  | err
  deriving Repr

/-- the outer loop `for index := max; index >= min; index--`; first argument = index + 1 -/
def searchLoop (c : Cfg) (files : List Bytes) (height : Int) (ignore : Bool) : Nat → Int → SearchRes
  | 0, _ => .notFound
  | i + 1, last =>
    match scan c height ignore last (openAt files i) with
    | .found g => .found g
    | .err => .err
    | .eof last' =>
      -- OPTIMISATION: no need to look in older files if we've seen h < height
      if last' > 0 ∧ last' < height then .notFound
      else searchLoop c files height ignore i last'

def search (c : Cfg) (files : List Bytes) (height : Int) (ignore : Bool) : SearchRes :=
  searchLoop c files height ignore files.length (-1)

/-! ## repairWalFile -/

/-- re-encode the decoded messages; `false` = "failed to encode msg" (output left as it is) -/
def repairOut (c : Cfg) : List Bytes → Bytes × Bool
  | [] => ([], true)
  | d :: ds =>
    match encode c (c.reser d) with
    | none => ([], false)
    | some r =>
      let o := repairOut c ds
      (r ++ o.1, o.2)

/-- `repairWalFile(src, dst)`: content of `dst` and whether it returned nil. `src` is read through
an `*os.File`. -/
def repair (c : Cfg) (src : Bytes) : Bytes × Bool :=
  repairOut c (decodeAll c .file src).1

/-! ## The writer: a group with rotation -/

structure Group where
  old : List Bytes     -- rotated files, oldest first
  head : Bytes
  deriving Repr

def Group.files (g : Group) : List Bytes := g.old ++ [g.head]

inductive WOp where
  | append (bs : Bytes)      -- `Group.Write(bs)` (one call, under the group mutex)
  | write (data : Bytes)     -- `enc.Encode`: one `Group.Write` of the whole record, or refusal
  | check (limit : Nat)      -- `checkHeadSizeLimit` (rotate when the head size ≥ limit; 0 = off)
  | rotate                   -- `RotateFile`

def Group.step (c : Cfg) (g : Group) : WOp → Group
  | .append bs => { g with head := g.head ++ bs }
  | .write d =>
    match encode c d with
    | some r => { g with head := g.head ++ r }
    | none => g
  | .check limit =>
    if limit = 0 then g
    else if g.head.length ≥ limit then ⟨g.old ++ [g.head], []⟩ else g
  | .rotate => ⟨g.old ++ [g.head], []⟩

def Group.run (c : Cfg) (g : Group) (ops : List WOp) : Group := ops.foldl (Group.step c) g

end KV.Wal
