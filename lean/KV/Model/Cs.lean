/-!
# `Cs` — one consensus node (model of `/repo/consensus/state.go`)

Shared by C01/C03/C04/C05.  `Cs.step` follows `handleMsg` / `handleTimeout` and every `enterX`
of `consensus/state.go` guard by guard (rounds start at 1; POL round / locked round / valid
round / commit round `0` mean "none", as in this code base).

Abstractions (see `notes/C03.md`):

* **Blocks** are abstract ids (`Nat`).  An id stands for a full `BlockID` (header hash *and*
  part-set header), so `Block.HashesTo` and `PartSet.HasHeader` are both id equality.  The block
  parts of a block are modelled as the single input `block`: "the (last missing) part of block
  `id` arrives"; it is accepted iff the node's `ProposalBlockParts` was created from the header of
  that id and is not yet complete (`PartSet.AddPart`: wrong proof → error, present → false).
  The input carries the answer `ok` of `BlockExecutor.ValidateBlock(cs.state, block)` for that
  block (the environment's `valid id`); the node only reads it where the Go code validates.
  `dec = false`: the assembled bytes do not pass `types.BlockFromProto` (`Block.ValidateBasic`);
  the part set is complete but `ProposalBlock` stays nil.
* **Signatures** are the bit `sigok` ("index in range, address matches, signature verifies").
* **Vote sets**: per (height, round, type) one slot per validator holding the first accepted vote;
  `+2/3` is `3 * sum > 2 * total` (the form proved equivalent to Go's `total*2/3+1 <= sum` and
  `sum > total*2/3` in C02).  `SetPeerMaj23` is a reactor call and not part of `handleMsg`, so
  conflicting votes are never tallied and `maj23` is a function of the slots.
  `HeightVoteSet`: existing rounds, `round`, and the two catch-up rounds per peer.
* **Own messages**: `signAddVote`/`decideProposal` only *emit* `signVote`/`signProposal`; the
  real node puts the message on `internalMsgQueue` and handles it as a later input.  The harness
  feeds those messages back as ordinary inputs, so does the model's environment.
* **createBlock**: each input carries `nb`, the id `createProposalBlock` would return if it is
  called while handling that input (`none` = it fails).
* **Ghost fields** (never read by `step`): `log` (every action so far, newest first), `seen`
  (every complete block assembled, with its height), vote sets of earlier heights (lookups are by
  the current height, so they are unreachable for `step`, exactly like the discarded Go objects).

Repairs the model follows (findings F36, F37; the earlier rules are kept for regression theorems in
`KV/Proofs/CsOld.lean`): `enterNewRound` releases a lock that a polka of a round in
`(lockedRound, round]` has overtaken (`releaseStale`: a round skip can carry the node over a round
whose polka it already holds, `addVote`'s unlock test is only evaluated when a prevote is added);
`enterNewRound` and `enterPrecommit` return in the commit step (votes of later rounds must not take
a node out of the commit step: the part set of the committed block would be dropped and the commit
forgotten).

Not modelled: `LastCommit` (late precommits of height-1 while in `NewHeight`; with
`IsSkipTimeoutCommit = false` they have no effect on the state machine), evidence, events, WAL.
Unreachable `PanicSanity` checks (`enterPrevoteWait`/`enterPrecommitWait` without +2/3 any,
`enterCommit` without majority, `POLInfo` in `enterPrecommit`) are not modelled; the reachable
ones (`finalizeCommit` on an invalid block, invalid timeout step) are: action `panic`, the node
halts (the real `receiveRoutine` recovers, logs CONSENSUS FAILURE and stops).
-/
namespace KV.Cs

inductive Step where
  | newHeight | newRound | propose | prevote | prevoteWait | precommit | precommitWait | commit
  deriving DecidableEq, Repr, Inhabited

/-- numeric value of `cstypes.RoundStepType` -/
def Step.toNat : Step → Nat
  | .newHeight => 1 | .newRound => 2 | .propose => 3 | .prevote => 4
  | .prevoteWait => 5 | .precommit => 6 | .precommitWait => 7 | .commit => 8

def Step.ofNat? : Nat → Option Step
  | 1 => some .newHeight | 2 => some .newRound | 3 => some .propose | 4 => some .prevote
  | 5 => some .prevoteWait | 6 => some .precommit | 7 => some .precommitWait | 8 => some .commit
  | _ => none

inductive VType where
  | prevote | precommit
  deriving DecidableEq, Repr, Inhabited

/-- what a vote is for: `none` = nil, `some id` = block `id` -/
abbrev Target := Option Nat

structure Blk where
  id : Nat
  ok : Bool
  deriving DecidableEq, Repr

structure Proposal where
  round : Nat
  pol : Nat
  id : Nat
  deriving DecidableEq, Repr

/-- one slot per validator: the first accepted vote -/
abbrev Slots := List (Option Target)

structure RoundVotes where
  height : Nat
  round : Nat
  prevotes : Slots
  precommits : Slots
  deriving Repr

inductive Action where
  | signProposal (h r pol b : Nat)
  | signVote (t : VType) (h r : Nat) (tgt : Target)
  | schedule (h r : Nat) (s : Step)
  | commit (h b : Nat)
  | panic
  deriving DecidableEq, Repr

structure Config where
  /-- voting powers, index = validator index -/
  powers : List Nat
  /-- own validator index (`≥ powers.length`: not a validator) -/
  me : Nat
  /-- proposer of (height, round) -/
  proposer : Nat → Nat → Nat
  /-- `config.WaitForTxs()` -/
  waitTxs : Bool
  /-- `config.CreateEmptyBlocksInterval > 0` -/
  emptyInterval : Bool

structure State where
  height : Nat
  round : Nat
  step : Step
  proposal : Option Proposal
  /-- `ProposalBlock` -/
  pblock : Option Blk
  /-- `ProposalBlockParts`: id of the header it was created from, complete? -/
  parts : Option (Nat × Bool)
  lockedRound : Nat
  locked : Option Blk
  validRound : Nat
  validB : Option Blk
  /-- `HeightVoteSet.roundVoteSets` (all heights so far; only the current height is read) -/
  votes : List RoundVotes
  /-- `HeightVoteSet.round` -/
  hvsRound : Nat
  /-- `HeightVoteSet.peerCatchupRounds`: one entry (the peer) per catch-up round granted -/
  catchup : List Nat
  commitRound : Nat
  /-- `TriggeredTimeoutPrecommit` -/
  ttp : Bool
  /-- every timeout handed to the ticker so far (newest first) -/
  sched : List (Nat × Nat × Step)
  /-- ghost: every action so far, newest first -/
  log : List Action
  /-- ghost: every complete block assembled into `ProposalBlock`, with the height -/
  seen : List (Nat × Blk)
  /-- whether the vote of the last input was added to a vote set -/
  added : Bool
  halted : Bool
  deriving Repr

/-! ### vote sets -/

def tally (p : Option Target → Bool) : List Nat → Slots → Nat
  | pw :: ps, v :: vs => (if p v then pw else 0) + tally p ps vs
  | _, _ => 0

def total (powers : List Nat) : Nat := powers.sum

/-- power of the validators whose accepted vote is for `t` -/
def sumFor (powers : List Nat) (vs : Slots) (t : Target) : Nat :=
  tally (fun v => v == some t) powers vs

/-- `VoteSet.sum` -/
def sumAny (powers : List Nat) (vs : Slots) : Nat :=
  tally (fun v => v.isSome) powers vs

/-- `VoteSet.HasTwoThirdsAny` -/
def hasAny (powers : List Nat) (vs : Slots) : Bool :=
  decide (3 * sumAny powers vs > 2 * total powers)

def isMaj (powers : List Nat) (vs : Slots) (t : Target) : Bool :=
  decide (3 * sumFor powers vs t > 2 * total powers)

/-- `VoteSet.TwoThirdsMajority` -/
def maj23 (powers : List Nat) (vs : Slots) : Option Target :=
  (vs.filterMap id).find? (isMaj powers vs)

def fresh (n h r : Nat) : RoundVotes :=
  { height := h, round := r, prevotes := List.replicate n none, precommits := List.replicate n none }

def findRV (vs : List RoundVotes) (h r : Nat) : Option RoundVotes :=
  vs.find? (fun rv => rv.height == h && rv.round == r)

def slotsOf (t : VType) (rv : RoundVotes) : Slots :=
  match t with
  | .prevote => rv.prevotes
  | .precommit => rv.precommits

/-- `cs.Votes.Prevotes(r)` / `Precommits(r)` at height `h`; a nil vote set is the empty list -/
def State.slots (σ : State) (t : VType) (h r : Nat) : Slots :=
  match findRV σ.votes h r with
  | some rv => slotsOf t rv
  | none => []

def hasRound (σ : State) (r : Nat) : Bool := (findRV σ.votes σ.height r).isSome

def addRound (n : Nat) (r : Nat) (σ : State) : State :=
  { σ with votes := σ.votes ++ [fresh n σ.height r] }

/-- `for r := from; r <= to; r++ { if !exists { addRound(r) } }`, `k = to + 1 - from` iterations -/
def addRounds (n : Nat) : Nat → Nat → State → State
  | 0, _, σ => σ
  | k+1, r, σ => addRounds n k (r+1) (if hasRound σ r then σ else addRound n r σ)

/-- `HeightVoteSet.SetRound(round)` -/
def setRound (n : Nat) (round : Nat) (σ : State) : State :=
  let from_ := σ.hvsRound - 1
  { addRounds n (round + 1 - from_) from_ σ with hvsRound := round }

def setSlot (t : VType) (idx : Nat) (tgt : Target) (h r : Nat) (rv : RoundVotes) : RoundVotes :=
  if rv.height == h && rv.round == r then
    match t with
    | .prevote => { rv with prevotes := rv.prevotes.set idx (some tgt) }
    | .precommit => { rv with precommits := rv.precommits.set idx (some tgt) }
  else rv

/-! ### small helpers -/

def n (cfg : Config) : Nat := cfg.powers.length
def isVal (cfg : Config) : Bool := decide (cfg.me < cfg.powers.length)

def emit (a : Action) (σ : State) : State := { σ with log := a :: σ.log }

/-- `cs.scheduleTimeout` -/
def schedule (h r : Nat) (s : Step) (σ : State) : State :=
  { σ with log := .schedule h r s :: σ.log, sched := (h, r, s) :: σ.sched }

def panic (σ : State) : State := { σ with log := .panic :: σ.log, halted := true }

/-- `cs.signAddVote`: stamps the *current* height and round -/
def signAddVote (cfg : Config) (t : VType) (tgt : Target) (σ : State) : State :=
  if isVal cfg then emit (.signVote t σ.height σ.round tgt) σ else σ

/-- `b.HashesTo(id)` -/
def idIs (b : Option Blk) (id : Nat) : Bool :=
  match b with
  | some blk => blk.id == id
  | none => false

/-- `ps.HasHeader(header of id)` -/
def partsHas (p : Option (Nat × Bool)) (id : Nat) : Bool :=
  match p with
  | some (pid, _) => pid == id
  | none => false

def unlock (σ : State) : State := { σ with lockedRound := 0, locked := none }

/-- `cs.isProposalComplete` -/
def isProposalComplete (cfg : Config) (σ : State) : Bool :=
  match σ.proposal, σ.pblock with
  | some p, some _ =>
    if p.pol < 1 then true else (maj23 cfg.powers (σ.slots .prevote σ.height p.pol)).isSome
  | _, _ => false

/-! ### the `enterX` functions -/

/-- `cs.doPrevote` -/
def doPrevote (cfg : Config) (σ : State) : State :=
  match σ.locked with
  | some blk => signAddVote cfg .prevote (some blk.id) σ
  | none =>
    match σ.pblock with
    | none => signAddVote cfg .prevote none σ
    | some blk =>
      if blk.ok then signAddVote cfg .prevote (some blk.id) σ
      else signAddVote cfg .prevote none σ

/-- `cs.enterPrevote` -/
def enterPrevote (cfg : Config) (h r : Nat) (σ : State) : State :=
  if σ.height ≠ h ∨ r < σ.round ∨ (σ.round = r ∧ Step.prevote.toNat ≤ σ.step.toNat) then σ
  else { doPrevote cfg σ with round := r, step := .prevote }

/-- `cs.enterPrevoteWait` -/
def enterPrevoteWait (h r : Nat) (σ : State) : State :=
  if σ.height ≠ h ∨ r < σ.round ∨ (σ.round = r ∧ Step.prevoteWait.toNat ≤ σ.step.toNat) then σ
  else { schedule h r .prevoteWait σ with round := r, step := .prevoteWait }

/-- polka in this round for a block we do not hold: unlock, fetch it, precommit nil -/
def precommitUnknown (cfg : Config) (b : Nat) (σ : State) : State :=
  let σ1 := unlock σ
  let σ2 := if partsHas σ1.parts b then σ1 else { σ1 with pblock := none, parts := some (b, false) }
  signAddVote cfg .precommit none σ2

/-- body of `cs.enterPrecommit` between the guard and the deferred step update -/
def doPrecommit (cfg : Config) (r : Nat) (σ : State) : State :=
  match maj23 cfg.powers (σ.slots .prevote σ.height r) with
  | none => signAddVote cfg .precommit none σ
  | some none =>
    match σ.locked with
    | none => signAddVote cfg .precommit none σ
    | some _ => signAddVote cfg .precommit none (unlock σ)
  | some (some b) =>
    if idIs σ.locked b then
      signAddVote cfg .precommit (some b) { σ with lockedRound := r }
    else
      match σ.pblock with
      | some blk =>
        if blk.id == b then
          -- the F6 fix: validate before locking
          if blk.ok then
            signAddVote cfg .precommit (some b) { σ with lockedRound := r, locked := some blk }
          else signAddVote cfg .precommit none σ
        else precommitUnknown cfg b σ
      | none => precommitUnknown cfg b σ

/-- `cs.enterPrecommit` -/
def enterPrecommit (cfg : Config) (h r : Nat) (σ : State) : State :=
  if σ.height ≠ h ∨ r < σ.round ∨ (σ.round = r ∧ Step.precommit.toNat ≤ σ.step.toNat) then σ
  else if σ.step = .commit then σ   -- F37 fix: decided; a precommit majority of a later round does not move us
  else { doPrecommit cfg r σ with round := r, step := .precommit }

/-- `cs.enterPrecommitWait` (the step is not changed) -/
def enterPrecommitWait (h r : Nat) (σ : State) : State :=
  if σ.height ≠ h ∨ r ≠ σ.round ∨ (σ.round = r ∧ σ.ttp) then σ
  else { schedule h r .precommitWait σ with ttp := true }

/-- `cs.updateToState` after a commit at `σ.height`, then `scheduleRound0` -/
def newHeight (cfg : Config) (σ : State) : State :=
  let h' := σ.height + 1
  schedule h' 1 .newHeight
    { σ with height := h', round := 1, step := .newHeight, proposal := none, pblock := none,
             parts := none, lockedRound := 0, locked := none, validRound := 0, validB := none,
             votes := σ.votes ++ [fresh (n cfg) h' 1], hvsRound := 1, catchup := [],
             commitRound := 0, ttp := false }

/-- `cs.finalizeCommit` -/
def finalizeCommit (cfg : Config) (h : Nat) (σ : State) : State :=
  if σ.height ≠ h ∨ σ.step ≠ .commit then σ
  else
    match maj23 cfg.powers (σ.slots .precommit σ.height σ.commitRound), σ.pblock with
    | some (some b), some blk =>
      if !(partsHas σ.parts b) || blk.id != b then panic σ
      else if !blk.ok then panic σ   -- "+2/3 committed an invalid block"
      else newHeight cfg (emit (.commit h b) σ)
    | _, _ => panic σ

/-- `cs.tryFinalizeCommit` -/
def tryFinalizeCommit (cfg : Config) (h : Nat) (σ : State) : State :=
  match maj23 cfg.powers (σ.slots .precommit σ.height σ.commitRound) with
  | some (some b) => if idIs σ.pblock b then finalizeCommit cfg h σ else σ
  | _ => σ

/-- `enterCommit`: "Commit is for locked block. Set ProposalBlock=LockedBlock" -/
def takeLocked (b : Nat) (σ : State) : State :=
  match σ.locked with
  | some blk => if blk.id == b then { σ with pblock := some blk, parts := some (blk.id, true) } else σ
  | none => σ

/-- `enterCommit`: if we do not have the block being committed, set up to get it -/
def expectBlock (b : Nat) (σ : State) : State :=
  if idIs σ.pblock b then σ
  else if partsHas σ.parts b then σ
  else { σ with pblock := none, parts := some (b, false) }

/-- body of `cs.enterCommit` before the deferred step update -/
def commitPrep (cfg : Config) (cr : Nat) (σ : State) : State :=
  match maj23 cfg.powers (σ.slots .precommit σ.height cr) with
  | some (some b) => expectBlock b (takeLocked b σ)
  | _ => σ   -- unreachable: the caller checked a non-nil majority

/-- `cs.enterCommit` -/
def enterCommit (cfg : Config) (h cr : Nat) (σ : State) : State :=
  if σ.height ≠ h ∨ Step.commit.toNat ≤ σ.step.toNat then σ
  else tryFinalizeCommit cfg h { commitPrep cfg cr σ with step := .commit, commitRound := cr }

/-- `cs.decideProposal` -/
def decideProposal (nb : Option Nat) (h r : Nat) (σ : State) : State :=
  match σ.validB with
  | some blk => emit (.signProposal h r σ.validRound blk.id) σ
  | none =>
    match nb with
    | some b => emit (.signProposal h r σ.validRound b) σ
    | none => σ

/-- body of `cs.enterPropose` before the deferred step update -/
def proposeBody (cfg : Config) (nb : Option Nat) (h r : Nat) (σ : State) : State :=
  let σ1 := schedule h r .propose σ
  if isVal cfg && cfg.proposer σ1.height σ1.round == cfg.me then decideProposal nb h r σ1 else σ1

/-- the deferred part of `cs.enterPropose` -/
def proposeDone (cfg : Config) (h : Nat) (σ : State) : State :=
  if isProposalComplete cfg σ then enterPrevote cfg h σ.round σ else σ

/-- `cs.enterPropose` -/
def enterPropose (cfg : Config) (nb : Option Nat) (h r : Nat) (σ : State) : State :=
  if σ.height ≠ h ∨ r < σ.round ∨ (σ.round = r ∧ Step.propose.toNat ≤ σ.step.toNat) then σ
  else proposeDone cfg h { proposeBody cfg nb h r σ with round := r, step := .propose }

/-- `cs.enterNewRound` up to the point where it waits for transactions or proposes -/
def newRoundPrep (cfg : Config) (r : Nat) (σ : State) : State :=
  let σ1 := { σ with round := r, step := .newRound }
  let σ2 := if r = 1 then σ1 else { σ1 with proposal := none, pblock := none, parts := none }
  { setRound (n cfg) (r + 1) σ2 with ttp := false }

/-- `enterNewRound` (F36 fix), the test of the scan: some round in `(lockedRound, round]` of the
current height has +2/3 prevotes for a value other than block `b` (nil included) in the node's
own vote sets (`cs.Votes.Prevotes(r) == nil` → `continue`: a missing round has no slots, hence no
majority) -/
def stalePolka (cfg : Config) (σ : State) (b : Nat) : Bool :=
  (List.range (σ.round + 1)).any (fun r' =>
    decide (σ.lockedRound < r') &&
      (match maj23 cfg.powers (σ.slots .prevote σ.height r') with
       | some x => x != some b
       | none => false))

/-- `enterNewRound` (F36 fix): "Unlocking because of POL seen before a round skip" — release a lock
that a polka of a later round (up to the round just entered) has overtaken; `addVote`'s unlock test
`LockedRound < vote.Round <= cs.Round` was false when that polka completed -/
def releaseStale (cfg : Config) (σ : State) : State :=
  match σ.locked with
  | some lb => if stalePolka cfg σ lb.id then unlock σ else σ
  | none => σ

/-- `cs.enterNewRound` -/
def enterNewRound (cfg : Config) (nb : Option Nat) (h r : Nat) (σ : State) : State :=
  if σ.height ≠ h ∨ r < σ.round ∨ (σ.round = r ∧ σ.step ≠ .newHeight) then σ
  else if σ.step = .commit then σ   -- F37 fix: the height is decided, votes of later rounds do not move us
  else
    let σ3 := releaseStale cfg (newRoundPrep cfg r σ)
    if cfg.waitTxs && r == 1 then
      if cfg.emptyInterval then schedule h r .newRound σ3 else σ3
    else enterPropose cfg nb h r σ3

/-! ### inputs -/

/-- `cs.setProposal` -/
def setProposal (cfg : Config) (src : Nat) (sigok : Bool) (h r pol id : Nat) (σ : State) : State :=
  if σ.proposal.isSome then σ
  else if h ≠ σ.height ∨ r ≠ σ.round then σ
  else if pol ≠ 0 ∧ r ≤ pol then σ   -- ErrInvalidProposalPOLRound: 0 = none, else 1 ≤ pol < round
  else if !(sigok && src == cfg.proposer σ.height σ.round) then σ
  else
    { σ with proposal := some ⟨r, pol, id⟩,
             parts := match σ.parts with
                      | none => some (id, false)
                      | some p => some p }

/-- `addProposalBlockPart`: the block is complete; "Update Valid* if we can" -/
def storeBlock (cfg : Config) (blk : Blk) (σ : State) : State :=
  let σ1 := { σ with pblock := some blk, parts := some (blk.id, true), seen := (σ.height, blk) :: σ.seen }
  match maj23 cfg.powers (σ1.slots .prevote σ1.height σ1.round) with
  | some (some b) =>
    if σ1.validRound < σ1.round && blk.id == b then
      { σ1 with validRound := σ1.round, validB := some blk }
    else σ1
  | _ => σ1

/-- `addProposalBlockPart`: what follows a complete block -/
def afterBlock (cfg : Config) (h : Nat) (σ : State) : State :=
  if σ.step.toNat ≤ Step.propose.toNat && isProposalComplete cfg σ then
    let σ3 := enterPrevote cfg h σ.round σ
    if (maj23 cfg.powers (σ.slots .prevote σ.height σ.round)).isSome then enterPrecommit cfg h σ3.round σ3 else σ3
  else if σ.step == .commit then tryFinalizeCommit cfg h σ
  else σ

/-- `cs.addProposalBlockPart` for the part that completes block `id` -/
def addBlock (cfg : Config) (h id : Nat) (ok dec : Bool) (σ : State) : State :=
  if σ.height ≠ h then σ
  else
    match σ.parts with
    | none => σ
    | some (pid, done) =>
      if pid != id || done then σ
      else if !dec then { σ with parts := some (id, true) }   -- `BlockFromProto` fails: part kept, no block
      else afterBlock cfg h (storeBlock cfg ⟨id, ok⟩ σ)

/-- `HeightVoteSet.AddVote` up to the vote set lookup: `none` = ErrGotVoteFromUnwantedRound -/
def ensureRound (cfg : Config) (peer r : Nat) (σ : State) : Option State :=
  if hasRound σ r then some σ
  else if (σ.catchup.filter (· == peer)).length < 2 then
    some { addRound (n cfg) r σ with catchup := peer :: σ.catchup }
  else none

/-- prevote branch of `cs.addVote`: unlock on a polka `bid` at round `vr` in (LockedRound, Round] -/
def polkaUnlock (vr : Nat) (bid : Target) (σ : State) : State :=
  match σ.locked with
  | some lb =>
    if σ.lockedRound < vr && vr ≤ σ.round && !(bid == some lb.id) then unlock σ else σ
  | none => σ

/-- prevote branch of `cs.addVote`: "Update Valid* if we can" for a polka for block `b` at `vr` -/
def polkaValid (vr b : Nat) (σ : State) : State :=
  if σ.validRound < vr && vr == σ.round then
    let σa :=
      if idIs σ.pblock b then { σ with validRound := vr, validB := σ.pblock }
      else { σ with pblock := none }
    if partsHas σa.parts b then σa else { σa with parts := some (b, false) }
  else σ

def polkaUpdate (vr : Nat) (m : Option Target) (σ : State) : State :=
  match m with
  | some bid =>
    let σ1 := polkaUnlock vr bid σ
    match bid with
    | some b => polkaValid vr b σ1
    | none => σ1
  | none => σ

/-- prevote branch of `cs.addVote`: the final `switch` -/
def prevoteSwitch (cfg : Config) (nb : Option Nat) (h vr : Nat) (m : Option Target) (any : Bool) (σ : State) : State :=
  if σ.round < vr && any then enterNewRound cfg nb h vr σ
  else if σ.round == vr && Step.prevote.toNat ≤ σ.step.toNat then
    match m with
    | some bid =>
      if isProposalComplete cfg σ || bid == none then enterPrecommit cfg h vr σ
      else if any then enterPrevoteWait h vr σ
      else σ
    | none => if any then enterPrevoteWait h vr σ else σ
  else
    match σ.proposal with
    | some p =>
      if 1 ≤ p.pol && p.pol == vr then
        if isProposalComplete cfg σ then enterPrevote cfg h σ.round σ else σ
      else σ
    | none => σ

/-- the prevote branch of `cs.addVote`, after the vote was added -/
def afterPrevote (cfg : Config) (nb : Option Nat) (vr : Nat) (σ : State) : State :=
  let pv := σ.slots .prevote σ.height vr
  let m := maj23 cfg.powers pv
  prevoteSwitch cfg nb σ.height vr m (hasAny cfg.powers pv) (polkaUpdate vr m σ)

/-- the precommit branch of `cs.addVote`, after the vote was added -/
def afterPrecommit (cfg : Config) (nb : Option Nat) (vr : Nat) (σ : State) : State :=
  let h := σ.height
  let pc := σ.slots .precommit h vr
  match maj23 cfg.powers pc with
  | some bid =>
    let σ1 := enterNewRound cfg nb h vr σ
    let σ2 := enterPrecommit cfg h vr σ1
    match bid with
    | some _ => enterCommit cfg h vr σ2
    | none => enterPrecommitWait h vr σ2
  | none =>
    if σ.round ≤ vr && hasAny cfg.powers pc then
      enterPrecommitWait h vr (enterNewRound cfg nb h vr σ)
    else σ

/-- `cs.tryAddVote` / `cs.addVote` -/
def addVote (cfg : Config) (nb : Option Nat) (peer idx : Nat) (t : VType) (h r : Nat) (tgt : Target)
    (sigok : Bool) (σ : State) : State :=
  if h + 1 == σ.height && t == .precommit then σ     -- LastCommit (not modelled)
  else if h ≠ σ.height then σ
  else
    match ensureRound cfg peer r σ with
    | none => σ
    | some σ1 =>
      if !sigok || !(decide (idx < n cfg)) then σ1
      else
        match (σ1.slots t h r)[idx]? with
        | some none =>
          let σ2 := { σ1 with votes := σ1.votes.map (setSlot t idx tgt h r), added := true }
          match t with
          | .prevote => afterPrevote cfg nb r σ2
          | .precommit => afterPrecommit cfg nb r σ2
        | _ => σ1   -- duplicate or conflicting vote: not added

/-- `cs.handleTimeout` -/
def handleTimeout (cfg : Config) (nb : Option Nat) (h r : Nat) (s : Step) (σ : State) : State :=
  if h ≠ σ.height ∨ r < σ.round ∨ (r = σ.round ∧ s.toNat < σ.step.toNat) then σ
  else
    match s with
    | .newHeight => enterNewRound cfg nb h 1 σ
    | .newRound => enterPropose cfg nb h 1 σ
    | .propose => enterPrevote cfg h r σ
    | .prevoteWait => enterPrecommit cfg h r σ
    | .precommitWait => enterNewRound cfg nb h (r + 1) (enterPrecommit cfg h r σ)
    | _ => panic σ   -- "Invalid timeout step"

inductive Input where
  | proposal (src : Nat) (sigok : Bool) (h r pol id : Nat)
  | block (h id : Nat) (ok dec : Bool)
  | vote (peer idx : Nat) (t : VType) (h r : Nat) (tgt : Target) (sigok : Bool)
  | timeout (h r : Nat) (s : Step)
  deriving Repr

/-- one input (`handleMsg` / `handleTimeout`); `nb` is the `createBlock` answer -/
def step (cfg : Config) (σ : State) (nb : Option Nat) (i : Input) : State :=
  if σ.halted then σ
  else
    let σ := { σ with added := false }
    match i with
    | .proposal src sigok h r pol id => setProposal cfg src sigok h r pol id σ
    | .block h id ok dec => addBlock cfg h id ok dec σ
    | .vote peer idx t h r tgt sigok => addVote cfg nb peer idx t h r tgt sigok σ
    | .timeout h r s => handleTimeout cfg nb h r s σ

/-- `NewConsensusState` at height `h` (`updateToState`, `cs.Round = 1`); nothing scheduled yet -/
def init (cfg : Config) (h : Nat) : State :=
  { height := h, round := 1, step := .newHeight, proposal := none, pblock := none, parts := none,
    lockedRound := 0, locked := none, validRound := 0, validB := none,
    votes := [fresh (n cfg) h 1], hvsRound := 1, catchup := [], commitRound := 0, ttp := false,
    sched := [], log := [], seen := [], added := false, halted := false }

def run (cfg : Config) (σ : State) : List (Option Nat × Input) → State
  | [] => σ
  | (nb, i) :: rest => run cfg (step cfg σ nb i) rest

end KV.Cs
