import KV.Base.I64
/-!
# Model of `types/validator_set.go` (property C12)

Branch-by-branch transcription over `Int` with the `int64` behaviour explicit (every Go `+`,
`-`, `*`, `/` on `int64` is a wrapping `KV.I64` operation; `big.Int.Div` is the Euclidean `/`
of `Int`).  Addresses are the 20 address bytes read as a big-endian `Nat`: for equal-length
byte strings `bytes.Compare` is exactly the order of these numbers.  Pointers are replaced by
values; the proposer is remembered by address (the only aliasing-independent part of
`vs.Proposer`).  Go panics are the explicit result `Err.panic`.

`Spec` (end of the file) is the Tendermint proposer-selection procedure over unbounded
integers, no clipping and no wrapping.  Core only (this file is linked into `kvdrv`).
-/
namespace KV.ValSet
open KV.I64

/-- `MaxTotalVotingPower = MaxInt64 / 8` -/
def cap : Int := 1152921504606846975
/-- `PriorityWindowSizeFactor` -/
def windowFactor : Int := 2

structure Validator where
  addr : Nat
  power : Int
  prio : Int
deriving DecidableEq, Repr, Inhabited

structure ValSet where
  vals : List Validator
  /-- address of `vs.Proposer` (`none` = nil pointer) -/
  proposer : Option Nat
  /-- the cached `totalVotingPower` (0 = not computed) -/
  total : Int
deriving DecidableEq, Repr, Inhabited

inductive Err
  | dup | neg | cap | zeroPower | unknown | overflow | empty | panic
deriving DecidableEq, Repr, Inhabited

def Err.name : Err → String
  | .dup => "dup" | .neg => "neg" | .cap => "cap" | .zeroPower => "zero" | .unknown => "unknown"
  | .overflow => "overflow" | .empty => "empty" | .panic => "panic"

/-- stable insertion sort (what Go's `sort.Sort`/`sort.Slice` do for the ≤ 12 elements it is
used on here; where keys are distinct every sort gives the same result) -/
def insertBy {α} (le : α → α → Bool) (x : α) : List α → List α
  | [] => [x]
  | y :: ys => if le x y then x :: y :: ys else y :: insertBy le x ys

def isort {α} (le : α → α → Bool) : List α → List α
  | [] => []
  | x :: xs => insertBy le x (isort le xs)

/-! ## safe maths -/

def safeAdd (a b : Int) : Int × Bool :=
  if b > 0 ∧ a > I64.sub maxI64 b then (-1, true)
  else if b < 0 ∧ a < I64.sub minI64 b then (-1, true)
  else (I64.add a b, false)

def safeSub (a b : Int) : Int × Bool :=
  if b > 0 ∧ a < I64.add minI64 b then (-1, true)
  else if b < 0 ∧ a > I64.add maxI64 b then (-1, true)
  else (I64.sub a b, false)

def safeAddClip (a b : Int) : Int :=
  let r := safeAdd a b
  if r.2 then (if b < 0 then minI64 else maxI64) else r.1

def safeSubClip (a b : Int) : Int :=
  let r := safeSub a b
  if r.2 then (if b > 0 then minI64 else maxI64) else r.1

/-! ## total voting power -/

/-- `updateTotalVotingPower`: clipped running sum, `none` = the panic "should be guarded to not
exceed" -/
def sumPowersAux : Int → List Validator → Option Int
  | s, [] => some s
  | s, v :: vs =>
    let s' := safeAddClip s v.power
    if s' > cap then none else sumPowersAux s' vs

def sumPowers (l : List Validator) : Option Int := sumPowersAux 0 l

/-- `TotalVotingPower()`: the cache, recomputed when it is 0 -/
def totalOf (vs : ValSet) : Option Int :=
  if vs.total = 0 then sumPowers vs.vals else some vs.total

/-! ## rescale / centre -/

def maxPrio (l : List Validator) : Int :=
  l.foldl (fun m v => if v.prio > m then v.prio else m) minI64
def minPrio (l : List Validator) : Int :=
  l.foldl (fun m v => if v.prio < m then v.prio else m) maxI64

/-- `computeMaxMinPriorityDiff` (non-empty list; the caller panics on the empty set) -/
def maxMinDiff (l : List Validator) : Int :=
  let d := I64.sub (maxPrio l) (minPrio l)
  if d < 0 then I64.mul (-1) d else d

def rescaleRatio (diffMax : Int) (l : List Validator) : Int :=
  I64.div (I64.sub (I64.add (maxMinDiff l) diffMax) 1) diffMax

/-- Go would panic with a division by zero (only reachable after a wrap of `diff + diffMax - 1`
or of the difference itself) -/
def rescalePanics (diffMax : Int) (l : List Validator) : Bool :=
  decide (diffMax > 0) && decide (maxMinDiff l > diffMax) && decide (rescaleRatio diffMax l = 0)

/-- `RescalePriorities(diffMax)` on a non-empty list -/
def rescaleList (diffMax : Int) (l : List Validator) : List Validator :=
  if diffMax ≤ 0 then l
  else if maxMinDiff l > diffMax then
    l.map fun v => { v with prio := I64.div v.prio (rescaleRatio diffMax l) }
  else l

def sumPrio (l : List Validator) : Int := (l.map (·.prio)).sum

/-- `computeAvgProposerPriority`: exact sum, Euclidean division (`big.Int.Div`) -/
def avgPrio (l : List Validator) : Int := sumPrio l / (l.length : Int)

/-- `shiftByAvgProposerPriority` -/
def shiftList (l : List Validator) : List Validator :=
  let a := avgPrio l
  l.map fun v => { v with prio := safeSubClip v.prio a }

/-! ## one round -/

/-- `CompareProposerPriority`: higher priority wins, tie → smaller address.  (Identical
addresses make Go panic; sets have distinct addresses.) -/
def better (v o : Validator) : Validator :=
  if v.prio > o.prio then v
  else if v.prio < o.prio then o
  else if v.addr < o.addr then v
  else if v.addr > o.addr then o
  else v

/-- `getValWithMostPriority` -/
def mostest (l : List Validator) : Option Validator :=
  l.foldl (fun r v => match r with | none => some v | some r => some (better r v)) none

/-- `incrementProposerPriority`: unchecked `prio + power` for everybody, the maximum is debited
by the total with clipping -/
def stepList (T : Int) (l : List Validator) : List Validator × Option Nat :=
  let l1 := l.map fun v => { v with prio := I64.add v.prio v.power }
  match mostest l1 with
  | none => (l1, none)
  | some m =>
    (l1.map fun v => if v.addr = m.addr then { v with prio := safeSubClip v.prio T } else v,
     some m.addr)

/-- `k` rounds without any normalisation in between (auxiliary: the accounting theorems and the
regression theorem about the former rule are stated with it; not what the code does since the fix
of C12-P1) -/
def stepsList (T : Int) : Nat → List Validator → Option Nat → List Validator × Option Nat
  | 0, l, p => (l, p)
  | k + 1, l, _ => let r := stepList T l; stepsList T k r.1 r.2

/-- one iteration of the loop of `IncrementProposerPriority`: `RescalePriorities(diffMax)`,
`shiftByAvgProposerPriority()`, `incrementProposerPriority()`; `none` = the division by zero of
`RescalePriorities` -/
def normStep (T D : Int) (l : List Validator) : Option (List Validator × Option Nat) :=
  if rescalePanics D l then none else some (stepList T (shiftList (rescaleList D l)))

/-- the loop: `times` iterations, the proposer of the last one is kept -/
def normSteps (T D : Int) : Nat → List Validator → Option Nat → Option (List Validator × Option Nat)
  | 0, l, p => some (l, p)
  | k + 1, l, _ =>
    match normStep T D l with
    | none => none
    | some r => normSteps T D k r.1 r.2

/-- `IncrementProposerPriority(times)`: the priorities are re-normalised (rescaled into the window
`2·T`, centred) before **every** single round, so `times` rounds in one call are `times` calls of
one round -/
def increment (vs : ValSet) (times : Int) : Except Err ValSet :=
  if vs.vals.isEmpty then .error .panic
  else if times ≤ 0 then .error .panic
  else match totalOf vs with
    | none => .error .panic
    | some T =>
      let D := I64.mul windowFactor T
      match normSteps T D times.toNat vs.vals none with
      | none => .error .panic
      | some r => .ok { vals := r.1, proposer := r.2, total := T }

/-- `GetProposer`: nil on the empty set; a nil `Proposer` is computed by `findProposer` (argmax,
no change of priorities) and cached -/
def getProposer (vs : ValSet) : ValSet × Option Nat :=
  if vs.vals.isEmpty then (vs, none)
  else match vs.proposer with
    | some p => (vs, some p)
    | none =>
      let p := (mostest vs.vals).map (·.addr)
      ({ vs with proposer := p }, p)

/-! ## the update pipeline -/

def findVal (l : List Validator) (a : Nat) : Option Validator := l.find? (·.addr = a)

def leAddr (a b : Validator) : Bool := decide (a.addr ≤ b.addr)

/-- the scan of `processChanges` over the address-sorted copy; `prev` starts as the zero
address (so a change for the zero address in first position is reported as a duplicate) -/
def scanChanges : Nat → List Validator → Except Err (List Validator × List Validator)
  | _, [] => .ok ([], [])
  | prev, c :: cs =>
    if c.addr = prev then .error .dup
    else if c.power < 0 then .error .neg
    else if c.power > cap then .error .cap
    else match scanChanges c.addr cs with
      | .error e => .error e
      | .ok (u, r) => if c.power = 0 then .ok (u, c :: r) else .ok (c :: u, r)

/-- `processChanges`: (updates, removals), both sorted by address -/
def processChanges (changes : List Validator) : Except Err (List Validator × List Validator) :=
  scanChanges 0 (isort leAddr changes)

/-- `verifyRemovals` (without the final length panic) -/
def verifyRemovals (vals : List Validator) : Int → List Validator → Except Err Int
  | acc, [] => .ok acc
  | acc, d :: ds =>
    match findVal vals d.addr with
    | none => .error .unknown
    | some v => verifyRemovals vals (I64.add acc v.power) ds

def delta (vals : List Validator) (u : Validator) : Int :=
  match findVal vals u.addr with
  | some v => I64.sub u.power v.power
  | none => u.power

def accumDeltas : Int → List Int → Except Err Int
  | t, [] => .ok t
  | t, d :: ds =>
    let t' := I64.add t d
    if t' > cap then .error .overflow else accumDeltas t' ds

/-- `verifyUpdates`: deltas in ascending order, running total against the cap; returns the
total after updates and before removals -/
def verifyUpdates (updates vals : List Validator) (T removed : Int) : Except Err Int :=
  let ds := isort (fun a b => decide (a ≤ b)) (updates.map (delta vals))
  match accumDeltas (I64.sub T removed) ds with
  | .error e => .error e
  | .ok t => .ok (I64.add t removed)

def numNew (updates vals : List Validator) : Nat :=
  (updates.filter fun u => (findVal vals u.addr).isNone).length

/-- `-(T + T>>3)` -/
def newcomerPrio (U : Int) : Int := I64.neg (I64.add U (I64.shr U 3))

/-- `computeNewPriorities` -/
def computeNewPriorities (updates vals : List Validator) (U : Int) : List Validator :=
  updates.map fun u =>
    match findVal vals u.addr with
    | some v => { u with prio := v.prio }
    | none => { u with prio := newcomerPrio U }

/-- the merge loop of `applyUpdates` (both lists sorted by address) -/
def mergeUpdAux : Nat → List Validator → List Validator → List Validator
  | 0, _, _ => []
  | _ + 1, [], us => us
  | _ + 1, e :: es, [] => e :: es
  | f + 1, e :: es, u :: us =>
    if e.addr < u.addr then e :: mergeUpdAux f es (u :: us)
    else if e.addr = u.addr then u :: mergeUpdAux f es us
    else u :: mergeUpdAux f (e :: es) us

/-- (fuel = total length + 1: every iteration consumes at least one element) -/
def mergeUpd (es us : List Validator) : List Validator := mergeUpdAux (es.length + us.length + 1) es us

def applyUpdates (existing updates : List Validator) : List Validator :=
  mergeUpd (isort leAddr existing) updates

/-- `applyRemovals` (Go indexes out of range when a delete is not found: excluded by
`verifyRemovals`; totalised as "nothing left") -/
def applyRemovals : List Validator → List Validator → List Validator
  | ex, [] => ex
  | [], _ :: _ => []
  | e :: ex, d :: ds =>
    if e.addr = d.addr then applyRemovals ex ds else e :: applyRemovals ex (d :: ds)

/-- `ValidatorsByVotingPower`: power descending, then address ascending -/
def lePower (a b : Validator) : Bool :=
  decide (a.power > b.power) || (decide (a.power = b.power) && decide (a.addr ≤ b.addr))

/-- `updateWithChangeSet` -/
def updateWithChangeSet (vs : ValSet) (changes : List Validator) (allowDeletes : Bool) :
    Except Err ValSet :=
  if changes.isEmpty then .ok vs
  else match processChanges changes with
    | .error e => .error e
    | .ok (updates, deletes) =>
      if !allowDeletes && !deletes.isEmpty then .error .zeroPower
      else match verifyRemovals vs.vals 0 deletes with
        | .error e => .error e
        | .ok removed =>
          if deletes.length > vs.vals.length then .error .panic
          else match totalOf vs with
            | none => .error .panic
            | some T0 =>
              match verifyUpdates updates vs.vals T0 removed with
              | .error e => .error e
              | .ok U =>
                if numNew updates vs.vals = 0 && vs.vals.length = deletes.length then .error .empty
                else
                  let ups := computeNewPriorities updates vs.vals U
                  let l2 := applyRemovals (applyUpdates vs.vals ups) deletes
                  match sumPowers l2 with
                  | none => .error .panic
                  | some T =>
                    if l2.isEmpty then .error .panic
                    else
                      let D := I64.mul windowFactor T
                      if rescalePanics D l2 then .error .panic
                      else
                        let l4 := shiftList (rescaleList D l2)
                        .ok { vals := isort lePower l4, proposer := vs.proposer, total := T }

def emptySet : ValSet := { vals := [], proposer := none, total := 0 }

/-- `NewValidatorSet` (an error is a panic in Go; the class is kept) -/
def newValidatorSet (vals : List Validator) : Except Err ValSet :=
  match updateWithChangeSet emptySet vals false with
  | .error e => .error e
  | .ok vs => if vals.isEmpty then .ok vs else increment vs 1

/-- `cstate.updateState` (kai/state/cstate/execution.go): the NextValidators of the next height are
a copy of the current ones with the block's change set applied (`UpdateWithChangeSet`, skipped for
a block without changes) and THEN advanced by one round; an invalid change set leaves the state
unchanged. -/
def blockStep (vs : ValSet) (changes : List Validator) : Except Err ValSet :=
  match updateWithChangeSet vs changes true with
  | .error e => .error e
  | .ok vs' => increment vs' 1

/-! ## Specification: Tendermint proposer selection over unbounded integers -/
namespace Spec

def maxP : List Validator → Int
  | [] => 0
  | [v] => v.prio
  | v :: vs => max v.prio (maxP vs)

def minP : List Validator → Int
  | [] => 0
  | [v] => v.prio
  | v :: vs => min v.prio (minP vs)

def total (l : List Validator) : Int := (l.map (·.power)).sum

/-- scale: if `max − min > D`, divide every priority (toward zero) by `⌈(max − min)/D⌉` -/
def rescale (D : Int) (l : List Validator) : List Validator :=
  if D ≤ 0 then l
  else
    let diff := maxP l - minP l
    if diff > D then
      l.map fun v => { v with prio := Int.tdiv v.prio ((diff + D - 1) / D) }
    else l

/-- centre: subtract `⌊avg⌋` -/
def centre (l : List Validator) : List Validator :=
  let a := sumPrio l / (l.length : Int)
  l.map fun v => { v with prio := v.prio - a }

/-- one round: everybody gains its power, the maximum (tie: smaller address) pays `T` -/
def step (T : Int) (l : List Validator) : List Validator × Option Nat :=
  let l1 := l.map fun v => { v with prio := v.prio + v.power }
  match mostest l1 with
  | none => (l1, none)
  | some m => (l1.map fun v => if v.addr = m.addr then { v with prio := v.prio - T } else v, some m.addr)

def steps (T : Int) : Nat → List Validator → Option Nat → List Validator × Option Nat
  | 0, l, p => (l, p)
  | k + 1, l, _ => let r := step T l; steps T k r.1 r.2

/-- one normalised round: scale into the window `2T`, centre, one round -/
def normStep (T : Int) (l : List Validator) : List Validator × Option Nat :=
  step T (centre (rescale (2 * T) l))

def normSteps (T : Int) : Nat → List Validator → Option Nat → List Validator × Option Nat
  | 0, l, p => (l, p)
  | k + 1, l, _ => let r := normStep T l; normSteps T k r.1 r.2

/-- `ProposerSelection` run `k` times: `k` single normalised rounds -/
def increment (l : List Validator) (k : Nat) : List Validator × Option Nat :=
  normSteps (total l) k l none

/-- the list of proposers of `k` rounds (for turn counting) -/
def run (T : Int) : Nat → List Validator → List Nat
  | 0, _ => []
  | k + 1, l => let r := step T l; (match r.2 with | some a => [a] | none => []) ++ run T k r.1

end Spec

end KV.ValSet
