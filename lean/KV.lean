import KV.Base.Hex
