import KV.Base.Hex
import KV.Drv.C16
/-! `kvdrv <model>`: reads one op per line on stdin, prints one answer per line.
    The step functions are the definitions the theorems in `KV/Props` talk about. -/
open KV

partial def loop {σ : Type} (step : σ → String → σ × String) (h : IO.FS.Stream) (out : IO.FS.Stream) (s : σ) : IO Unit := do
  let line ← h.getLine
  if line.isEmpty then return ()
  let l := String.ofList (line.toList.filter (fun c => c != '\n' && c != '\r'))
  let (s', o) := step s l
  out.putStrLn o
  loop step h out s'

def echoStep (s : Unit) (l : String) : Unit × String := (s, l)

def main (args : List String) : IO UInt32 := do
  let stdin ← IO.getStdin
  let stdout ← IO.getStdout
  match args with
  | ["echo"] => loop echoStep stdin stdout (); return 0
  | ["rlp"] => loop KV.Drv.C16.step stdin stdout (); return 0
  | _ => IO.eprintln "usage: kvdrv <model>"; return 2
